#include <vx_base.h>
