/* vx stub of cds/os/thread.h: thread ids. The calling thread's id is the constant VX_MY_TID; other threads have any other id. */
#ifndef CDSLIB_OS_THREAD_H
#define CDSLIB_OS_THREAD_H
#include <cds/details/defs.h>
#ifndef VX_MY_TID
#define VX_MY_TID 7
#endif
namespace cds { namespace OS {
    typedef size_t ThreadId;
    static const ThreadId c_NullThreadId = 0;
    static inline ThreadId get_current_thread_id() { return VX_MY_TID; }
    static inline bool is_thread_alive( ThreadId ) { return true; }
}}
#endif
