/* vx stub of cds/user_setup/cache_line.h */
#ifndef CDSLIB_USER_SETUP_CACHE_LINE_H
#define CDSLIB_USER_SETUP_CACHE_LINE_H
namespace cds { static const size_t c_nCacheLineSize = 64; }
#endif
