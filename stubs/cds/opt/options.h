/* vx stub of cds/opt/options.h: only opt::none (the option-pack machinery is outside the front end's reach) */
#ifndef CDSLIB_OPT_OPTIONS_H
#define CDSLIB_OPT_OPTIONS_H
#include <cds/details/defs.h>
namespace cds { namespace opt { struct none {}; } }
#endif
