/* vx stub of cds/algo/atomic.h: namespace atomics = std (the STL branch of the real header) over the stub <atomic> */
#ifndef CDSLIB_CXX11_ATOMIC_H
#define CDSLIB_CXX11_ATOMIC_H
#include <cds/details/defs.h>
#include <atomic>
namespace atomics = std;
namespace cds { namespace atomicity {
    struct event_counter { typedef size_t value_type; size_t v; event_counter() : v(0) {} size_t get() const { return v; } size_t operator++() { return ++v; } size_t operator=( size_t n ) { v = n; return n; } operator size_t() const { return v; } };
    struct empty_item_counter { typedef size_t counter_type; size_t value() const { return 0; } operator size_t() const { return 0; }
        size_t inc() { return 0; } size_t dec() { return 0; } size_t operator++() { return 0; } size_t operator++(int) { return 0; }
        size_t operator--() { return 0; } size_t operator--(int) { return 0; } void reset() {} };
}}
#endif
