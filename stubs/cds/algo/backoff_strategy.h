/* vx stub of cds/algo/backoff_strategy.h: every back-off strategy is a no-op functor (timing only) */
#ifndef CDSLIB_BACKOFF_STRATEGY_H
#define CDSLIB_BACKOFF_STRATEGY_H
#include <cds/details/defs.h>
namespace cds { namespace backoff {
    struct empty { void operator()() const {} void reset() const {} };
    typedef empty yield; typedef empty pause; typedef empty hint; typedef empty Default; typedef empty LockDefault; typedef empty delay_of_type;
    template <class A = empty, class B = empty> struct exponential : empty {};
    template <class T = empty> struct delay : empty {};
}
typedef backoff::Default back_off;
}
#endif
