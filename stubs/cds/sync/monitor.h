/* vx stub of cds/sync/monitor.h (documentation + monitor_scoped_lock; the scoped lock alias templates are dropped) */
#ifndef CDSLIB_SYNC_MONITOR_H
#define CDSLIB_SYNC_MONITOR_H
#include <cds/details/defs.h>
#endif
