/* vx stub of cds/details/throw_exception.h: a throw ends the path (the throwing call does not return);
   the exception object is not constructed */
#ifndef CDSLIB_DETAILS_THROW_EXCEPTION_H
#define CDSLIB_DETAILS_THROW_EXCEPTION_H
#include <cds/details/defs.h>
extern "C" void vx_throw();       /* defined in the unit's C file as __CPROVER_assume(0) + ghost flag */
#define CDS_THROW_EXCEPTION( exception ) vx_throw()
#endif
