/* vx stub of cds/details/defs.h: configuration macros only.
   vx_config.h is generated on every run from `g++ -E -dM` over the real cds/details/defs.h with the
   baseline flags, so the preprocessor branches verified are the ones compiled. */
#ifndef CDSLIB_DEFS_H
#define CDSLIB_DEFS_H
#include <vx_base.h>
#include <vx_config.h>
#define CDS_DEBUG_ONLY(x)
#define CDS_VERIFY(x) ((void)(x))
#define CDS_VERIFY_FALSE(x) ((void)(x))
#define CDS_VERIFY_EQ(x,y) ((void)(x))
#define CDS_STRICT_DO(x)
#define CDS_EXPORT_API
#define CDS_NOEXCEPT
#define CDS_CONSTEXPR
#define CDS_NORETURN
#define CDS_DEPRECATED(x)
#define CDS_SUPPRESS_SANITIZE(x)
#define CDS_UNUSED(x) ((void)(x))
#define CDS_TSAN_ANNOTATE_IGNORE_READS_BEGIN
#define CDS_TSAN_ANNOTATE_IGNORE_READS_END
#define CDS_TSAN_ANNOTATE_IGNORE_WRITES_BEGIN
#define CDS_TSAN_ANNOTATE_IGNORE_WRITES_END
#define CDS_TSAN_ANNOTATE_IGNORE_RW_BEGIN
#define CDS_TSAN_ANNOTATE_IGNORE_RW_END
#define CDS_TSAN_ANNOTATE_HAPPENS_BEFORE(a)
#define CDS_TSAN_ANNOTATE_HAPPENS_AFTER(a)
#define CDS_TSAN_ANNOTATE_NEW_MEMORY(a,s)
#define CDS_TSAN_ANNOTATE_PUBLISH_MEMORY_RANGE(a,s)
#define CDS_TSAN_ANNOTATE_MUTEX_CREATE(a)
#define CDS_TSAN_ANNOTATE_MUTEX_DESTROY(a)
#define CDS_TSAN_ANNOTATE_MUTEX_PRE_LOCK(a)
#define CDS_TSAN_ANNOTATE_MUTEX_POST_LOCK(a)
#define CDS_TSAN_ANNOTATE_MUTEX_PRE_UNLOCK(a)
#define CDS_TSAN_ANNOTATE_MUTEX_POST_UNLOCK(a)
#define CDS_TSAN_ANNOTATE_MUTEX_ACQUIRED(a)
#define CDS_TSAN_ANNOTATE_MUTEX_RELEASED(a)
#define CDS_DATA_ALIGNMENT(n)
#define CDS_TYPE_ALIGNMENT(n)
#define CDS_CLASS_ALIGNMENT(n)
#define cds_likely(x) (x)
#define cds_unlikely(x) (x)
namespace cds { typedef size_t thread_id_t_stub; }
#endif
