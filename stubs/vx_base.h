/* vx stub: minimal freestanding replacements for libc/libstdc++ headers (LP64, x86-64).
   Environment, not subject: nothing of libcds is defined here. */
#ifndef VX_BASE_H
#define VX_BASE_H
typedef unsigned long size_t;
typedef long ptrdiff_t;
typedef long ssize_t;
typedef signed char int8_t;
typedef short int16_t;
typedef int int32_t;
typedef long int64_t;
typedef unsigned char uint8_t;
typedef unsigned short uint16_t;
typedef unsigned int uint32_t;
typedef unsigned long uint64_t;
typedef long intptr_t;
typedef unsigned long uintptr_t;
typedef unsigned long uint_fast64_t;
#ifndef NULL
#define NULL 0
#endif
#define UINT32_MAX 0xffffffffu
#define UINT64_MAX 0xffffffffffffffffUL
#define SIZE_MAX   0xffffffffffffffffUL
#define INT_MAX 0x7fffffff
/* baseline build is -DNDEBUG: assert is a no-op there, hence here */
#define assert(x) ((void)0)
#ifdef __cplusplus
namespace std {
    typedef ::size_t size_t; typedef ::ptrdiff_t ptrdiff_t;
    typedef ::uint8_t uint8_t; typedef ::uint16_t uint16_t; typedef ::uint32_t uint32_t; typedef ::uint64_t uint64_t;
    typedef ::int8_t int8_t; typedef ::int16_t int16_t; typedef ::int32_t int32_t; typedef ::int64_t int64_t;
    typedef ::intptr_t intptr_t; typedef ::uintptr_t uintptr_t;
    typedef decltype(nullptr) nullptr_t;
    int rand();
}
extern "C" { void* memcpy(void*, const void*, size_t); void* memset(void*, int, size_t); void abort(); }
#endif
#endif
