#!/usr/bin/env python3
"""vx — driver for contract-based verification of libcds with CBMC.

stage (/repo working tree -> scratch) -> goto-cc (C++ shim, C contracts) -> link per harness
-> goto-instrument --dfcc (enforce / replace contracts, loop contracts) -> cbmc -> verdict
-> native replay of counterexamples -> evidence.

Exit codes of a check: 0 pass, 1 VIOLATION (a discharged-on-baseline obligation failed),
2 undecided (extraction drift, front-end reject, timeout, missing obligation, blind check).
"""
import sys, os, re, json, time, shutil, subprocess, tempfile, hashlib, importlib.util, resource
from concurrent.futures import ThreadPoolExecutor

VERIF = os.path.dirname(os.path.abspath(__file__))
REPO = os.environ.get('VX_REPO', '/repo')
STUBS = os.path.join(VERIF, 'stubs')
NCPU = int(os.environ.get('VX_JOBS', '16'))
BASE_CXXFLAGS = ['-O2', '-DNDEBUG', '-std=gnu++11', '-mcx16', '-I' + REPO]
MEM_KB = int(os.environ.get('VX_MEM_GB', '24')) * 1024 * 1024


class Drift(Exception):
    """extraction drift / tool reject: undecided, never a violation"""


def trim_err(s):
    """drop cbmc invariant-violation backtraces"""
    return '\n'.join(l for l in s.splitlines() if not re.match(r'^(goto-cc|goto-instrument|cbmc|/lib/)\S*\(', l) and l.strip())


def sh(cmd, timeout=None, cwd=None, mem=True, env=None):
    def lim():
        if mem:
            resource.setrlimit(resource.RLIMIT_AS, (MEM_KB * 1024, MEM_KB * 1024))
    t0 = time.time()
    try:
        p = subprocess.run(cmd, cwd=cwd, stdout=subprocess.PIPE, stderr=subprocess.PIPE,
                           timeout=timeout, preexec_fn=lim, env=env)
        return p.returncode, p.stdout.decode('utf8', 'replace'), p.stderr.decode('utf8', 'replace'), time.time() - t0
    except subprocess.TimeoutExpired as e:
        return -9, (e.stdout or b'').decode('utf8', 'replace'), 'TIMEOUT', time.time() - t0


# ----------------------------------------------------------------------------- staging

def strip_scan(text, i):
    """skip comment/string/char literal starting at i; return new index or i if none"""
    if text.startswith('//', i):
        j = text.find('\n', i)
        return len(text) if j < 0 else j
    if text.startswith('/*', i):
        j = text.find('*/', i + 2)
        return len(text) if j < 0 else j + 2
    c = text[i]
    if c == '"' or c == "'":
        j = i + 1
        while j < len(text) and text[j] != c:
            if text[j] == '\\':
                j += 1
            j += 1
        return j + 1
    return i


def match_brace(text, start):
    """text[start] == '{' -> index just past the matching '}'"""
    assert text[start] == '{'
    depth = 0
    i = start
    while i < len(text):
        j = strip_scan(text, i)
        if j != i:
            i = j
            continue
        c = text[i]
        if c == '{':
            depth += 1
        elif c == '}':
            depth -= 1
            if depth == 0:
                return i + 1
        i += 1
    raise Drift('unbalanced braces')


def extract_fragment(text, anchor, what, body_only=False, occurrence=0, trailing_semicolon=False):
    ms = list(re.finditer(anchor, text, re.M))
    if len(ms) <= occurrence:
        raise Drift('fragment anchor for %s not found: %s' % (what, anchor))
    m = ms[occurrence]
    # first '{' at paren depth 0 after the anchor
    i = m.start()       # scan from the start of the anchor so anchors may end inside the parameter list
    depth = 0
    while i < len(text):
        j = strip_scan(text, i)
        if j != i:
            i = j
            continue
        c = text[i]
        if c == '(':
            depth += 1
        elif c == ')':
            depth -= 1
        elif c == ';' and depth == 0:
            raise Drift('fragment %s: declaration without body' % what)
        elif c == '{' and depth == 0:
            break
        i += 1
    else:
        raise Drift('fragment %s: no body' % what)
    end = match_brace(text, i)
    if trailing_semicolon:
        k = end
        while k < len(text) and text[k] in ' \t\r\n':
            k += 1
        if k < len(text) and text[k] == ';':
            end = k + 1
    return text[i:end] if body_only else text[m.start():end]


def apply_rewrites(text, rewrites, what, report):
    for rw in rewrites or []:
        cnt = rw.get('count', 1)
        if 'lit' in rw:
            n = text.count(rw['lit'])
            new = text.replace(rw['lit'], rw['to'])
            key = rw['lit']
        else:
            new, n = re.subn(rw['re'], rw['to'], text, flags=re.M | re.S if rw.get('dotall') else re.M)
            key = rw['re']
        ok = (n == cnt) if isinstance(cnt, int) else (n >= int(cnt.rstrip('+')))
        report.append({'in': what, 'rule': key, 'fired': n, 'expected': cnt, 'why': rw.get('why', '')})
        if not ok:
            raise Drift('rewrite rule %r in %s fired %d times, expected %s' % (key, what, n, cnt))
        text = new
    return text


def contract_point(text, cp, what, report):
    """wrap the body of one function definition as  #ifdef VX_CONTRACT_<name> ; #else {body} #endif
    so that a group can verify its callers against the callee's contract instead of its body
    (the stand-in definition that calls the contract-only C function lives in the unit's shim)."""
    ms = list(re.finditer(cp['anchor'], text, re.M))
    occ = cp.get('occurrence', 0)
    if len(ms) != cp.get('matches', 1):
        raise Drift('contract point %s in %s: anchor matched %d times, expected %d' % (cp['name'], what, len(ms), cp.get('matches', 1)))
    m = ms[occ]
    i = m.end()
    depth = 0
    while i < len(text):
        j = strip_scan(text, i)
        if j != i:
            i = j
            continue
        c = text[i]
        if c == '(':
            depth += 1
        elif c == ')':
            depth -= 1
        elif c == ';' and depth == 0:
            raise Drift('contract point %s: declaration without body' % cp['name'])
        elif c == '{' and depth == 0:
            break
        i += 1
    end = match_brace(text, i)
    report.setdefault('contract_points', []).append({'in': what, 'name': cp['name'], 'anchor': cp['anchor']})
    return text[:i] + '\n#ifdef VX_CONTRACT_%s\n;\n#else\n' % cp['name'] + text[i:end] + '\n#endif\n' + text[end:]


CONFIG_RE = re.compile(r'^#define (CDS_BUILD_BITS|CDS_ARCH_\w+_ENDIAN|CDS_PROCESSOR_\w+|CDS_COMPILER|CDS_COMPILER_(?:GCC|CLANG|MSVC|INTEL)'
                       r'|CDS_OS_\w+|CDS_OSI_\w+|CDS_DCAS_SUPPORT|CDS_CXX11_INLINE_NAMESPACE\w*|CDS_THREADING_\w+|CDS_URCU_SIGNAL_HANDLING_ENABLED)\b(.*)$', re.M)


def gen_config(work):
    rc, out, err, _ = sh(['g++', '-Dcds_EXPORTS', '-fPIC', '-E', '-dM', '-x', 'c++'] + BASE_CXXFLAGS +
                         [os.path.join(REPO, 'cds/details/defs.h')], timeout=120, mem=False)
    if rc != 0:
        raise Drift('g++ -E -dM over cds/details/defs.h failed: ' + err[-400:])
    lines = ['/* generated by vx from g++ -E -dM over the real cds/details/defs.h (baseline flags) */']
    for m in CONFIG_RE.finditer(out):
        lines.append('#define %s%s' % (m.group(1), m.group(2)))
    with open(os.path.join(work, 'vx_config.h'), 'w') as f:
        f.write('\n'.join(lines) + '\n')
    return lines[1:]


def stage(unit, udir, work):
    """build work/shadow, work/frag from /repo's current working tree; returns extraction report"""
    report = {'mode_a_verbatim': [], 'mode_b_shadow': [], 'mode_c_fragment': [], 'rules': [], 'decl_rules': [], 'config': []}
    report['config'] = gen_config(work)
    for ent in unit.get('stage', []):
        kind = ent['kind']
        src = os.path.join(REPO, ent['path'])
        if not os.path.exists(src):
            raise Drift('staged file missing in /repo: ' + ent['path'])
        text = open(src, encoding='utf8', errors='replace').read()
        if kind == 'verbatim':
            report['mode_a_verbatim'].append(ent['path'])
            for must in ent.get('must_contain', []):
                if not re.search(must, text, re.M):
                    raise Drift('%s no longer contains %r' % (ent['path'], must))
        elif kind == 'shadow':
            out = apply_rewrites(text, ent.get('rewrites'), ent['path'], report['rules'])
            for cp in ent.get('contract_points', []):
                out = contract_point(out, cp, ent['path'], report)
            dst = os.path.join(work, 'shadow', ent.get('as', ent['path']))
            os.makedirs(os.path.dirname(dst), exist_ok=True)
            open(dst, 'w').write(out)
            report['mode_b_shadow'].append(ent['path'])
        elif kind == 'fragment':
            frag = extract_fragment(text, ent['anchor'], ent['name'], ent.get('body_only', False),
                                    ent.get('occurrence', 0), ent.get('semicolon', False))
            frag = apply_rewrites(frag, ent.get('rewrites'), ent['path'] + '::' + ent['name'], report['rules'])
            dst = os.path.join(work, 'frag', ent['name'] + '.inc')
            os.makedirs(os.path.dirname(dst), exist_ok=True)
            open(dst, 'w').write('/* extracted by vx from %s (anchor %s) */\n%s\n' % (ent['path'], repr(ent['anchor']).replace('*/', '* /').replace('/*', '/ *'), frag))
            report['mode_c_fragment'].append('%s :: %s' % (ent['path'], ent['name']))
        else:
            raise Drift('unknown stage kind ' + kind)
    for dr in unit.get('decl_rules', []):
        text = open(os.path.join(REPO, dr['path']), encoding='utf8', errors='replace').read()
        n = len(re.findall(dr['re'], text, re.M))
        cnt = dr.get('count', 1)
        ok = (n == cnt) if isinstance(cnt, int) else (n >= int(cnt.rstrip('+')))
        report['decl_rules'].append({'path': dr['path'], 're': dr['re'], 'matched': n, 'expected': cnt})
        if not ok:
            raise Drift('declaration rule %r in %s matched %d times, expected %s' % (dr['re'], dr['path'], n, cnt))
    return report


# ----------------------------------------------------------------------------- build + verify

def load_unit(name):
    udir = os.path.join(VERIF, 'units', name)
    spec = importlib.util.spec_from_file_location('unit_' + name, os.path.join(udir, 'unit.py'))
    mod = importlib.util.module_from_spec(spec)
    spec.loader.exec_module(mod)
    u = mod.UNIT
    u['name'] = name
    return u, udir


def all_units():
    r = []
    for n in sorted(os.listdir(os.path.join(VERIF, 'units'))):
        if os.path.exists(os.path.join(VERIF, 'units', n, 'unit.py')):
            r.append(n)
    return r


class Builder:
    """compiles the unit's TUs once per distinct define-set"""

    def __init__(self, unit, udir, work):
        self.unit, self.udir, self.work = unit, udir, work
        self.cache = {}
        self.log = []

    def objs(self, defines):
        key = tuple(sorted(defines))
        if key in self.cache:
            r = self.cache[key]
            if isinstance(r, Exception):
                raise r
            return r
        tag = hashlib.sha1(repr(key).encode()).hexdigest()[:8]
        outs = []
        try:
            inc = ['-I' + self.work, '-I' + STUBS, '-I' + os.path.join(self.work, 'shadow'), '-I' + os.path.join(self.work, 'frag'),
                   '-I' + self.udir, '-I' + os.path.join(VERIF, 'units', 'common'), '-I' + os.path.join(VERIF, 'units', 'common', 'shell'), '-I' + REPO]
            dd = ['-D' + d for d in key] + ['-DKHIZMAX_LIBCDS_VERIF']
            for src in self.unit.get('cxx', []):
                o = os.path.join(self.work, '%s.%s.gb' % (src.replace('/', '_'), tag))
                cmd = ['goto-cc', '-std=c++11', '-nostdinc'] + self.unit.get('cxxflags', []) + inc + dd + ['-c', os.path.join(self.udir, src), '-o', o]
                rc, out, err, dt = sh(cmd, timeout=300)
                self.log.append({'cmd': ' '.join(cmd), 'rc': rc, 's': round(dt, 2)})
                if rc != 0:
                    raise Drift('C++ front end rejected %s: %s' % (src, trim_err(err + out)[-1500:]))
                outs.append(o)
            for src in self.unit.get('c', []):
                o = os.path.join(self.work, '%s.%s.gb' % (src.replace('/', '_'), tag))
                cmd = ['goto-cc'] + inc[:2] + ['-I' + self.udir, '-I' + os.path.join(VERIF, 'units', 'common')] + dd + ['-c', os.path.join(self.udir, src), '-o', o]
                rc, out, err, dt = sh(cmd, timeout=300)
                self.log.append({'cmd': ' '.join(cmd), 'rc': rc, 's': round(dt, 2)})
                if rc != 0:
                    raise Drift('C front end rejected %s: %s' % (src, (err + out)[-1500:]))
                outs.append(o)
        except Drift as e:
            self.cache[key] = e
            raise
        self.cache[key] = outs
        return outs


REACH = 'VX_REACH'


def run_group(unit, udir, work, builder, g, tier):
    """returns dict(name, status in pass|fail|undecided, obligations=[...], ...)"""
    res = {'group': g['name'], 'unit': unit['name'], 'harness': g['harness'], 'props': g.get('props', unit.get('properties', [])),
           'functions': g.get('functions', []), 'enforce': g.get('enforce', []), 'replace': g.get('replace', []),
           'backend': g.get('backend', 'sat-minisat'), 'bounded': g.get('bounded'), 'unwind': None,
           'obligations': [], 'status': 'undecided', 'why': '', 'solver_s': 0.0, 'cmds': [], 'ignore_rule': g.get('ignore_checks', '')}
    t0 = time.time()
    try:
        defines = list(unit.get('defines', [])) + list(g.get('defines', []))
        dt_ = g.get('defines_tier', {}).get(tier)
        if dt_:
            defines += dt_
        objs = builder.objs(defines)
        tag = g['name']
        linked = os.path.join(work, tag + '.l.gb')
        cmd = ['goto-cc', '--function', g['harness']] + objs + ['-o', linked]
        rc, out, err, dt = sh(cmd, timeout=300)
        res['cmds'].append(' '.join(cmd))
        if rc != 0:
            raise Drift('link failed: ' + (err + out)[-800:])
        inst = os.path.join(work, tag + '.i.gb')
        use_dfcc = g.get('dfcc', True)
        cmd = ['goto-instrument', '--dfcc', g['harness']]
        for e in g.get('enforce', []):
            cmd += ['--enforce-contract', e]
        for r in g.get('replace', []):
            cmd += ['--replace-call-with-contract', r]
        if g.get('loops'):
            cmd += ['--apply-loop-contracts', '--loop-contracts-file', os.path.join(udir, g['loops'])]
        elif g.get('apply_loop_contracts'):
            cmd += ['--apply-loop-contracts']
        cmd += g.get('instrument_flags', [])
        cmd += [linked, inst]
        if use_dfcc:
            rc, out, err, dt = sh(cmd, timeout=600)
            res['cmds'].append(' '.join(cmd))
            if rc != 0:
                raise Drift('goto-instrument failed: ' + trim_err(err + out)[-1200:])
        else:
            inst = linked       # ghost-state assertion harness: no contract to enforce or replace, cbmc runs on the linked binary
        unwind = g.get('unwind')
        if isinstance(unwind, dict):
            unwind = unwind.get(tier, unwind.get('quick'))
        res['unwind'] = unwind
        cmd = ['cbmc', inst, '--json-ui', '--trace', '--arch', 'x86_64', '--drop-unused-functions', '--object-bits', str(g.get('object_bits', 10))]
        # cbmc 6 enables bounds/pointer/div-by-zero/signed-overflow/undefined-shift/pointer-primitive checks by default
        cmd += g.get('checks', [])
        if unwind:
            cmd += ['--unwind', str(unwind)]
            # cbmc 6 enables unwinding assertions by default; without them paths that need more iterations are cut (stated bound)
            cmd += ['--unwinding-assertions'] if g.get('unwinding_assertions', True) else ['--no-unwinding-assertions']
        for k, v in (g.get('unwindset') or {}).items():
            cmd += ['--unwindset', '%s:%s' % (k, v)]
        be = g.get('backend', 'sat-minisat')
        if be == 'cvc5':
            cmd += ['--cvc5']
        elif be == 'z3':
            cmd += ['--z3']
        elif be == 'kissat':
            cmd += ['--external-sat-solver', 'kissat']
        elif be == 'cadical':
            cmd += ['--sat-solver', 'cadical']
        cmd += g.get('cbmc_flags', [])
        tmo = g.get('timeout', 300)
        if isinstance(tmo, dict):
            tmo = tmo.get(tier, tmo.get('quick'))
        rc, out, err, dt = sh(cmd, timeout=tmo)
        res['cmds'].append(' '.join(cmd))
        res['solver_s'] = round(dt, 2)
        if rc == -9:
            res['why'] = 'solver timeout after %ss' % tmo
            return res
        try:
            js = json.loads(out)
        except Exception:
            raise Drift('cbmc produced no JSON (rc=%s): %s' % (rc, (err + out)[-600:]))
        results = None
        msgs = []
        for item in js:
            if 'result' in item:
                results = item['result']
            if 'messageText' in item:
                msgs.append(item['messageText'])
        alltext = '\n'.join(msgs)
        if results is None:
            raise Drift('cbmc gave no result list (rc=%s): %s' % (rc, alltext[-800:]))
        if re.search(r'ignoring forall|ignoring exists|Parse Error', alltext):
            raise Drift('quantifier ignored / SMT parse error: undecided')
        failed, reach_seen, reach_bad, unwind_fail = [], 0, [], []
        for r in results:
            desc = r.get('description', '')
            ob = {'id': r['property'], 'desc': desc[:200], 'status': r['status']}
            is_reach = REACH in desc
            if is_reach and not r['property'].startswith(g['harness'] + '.'):
                continue        # another harness's guard (unreachable from this entry point)
            ign = g.get('ignore_checks')
            if ign and re.search(ign, '%s %s' % (r['property'], desc)):
                ob['kind'] = 'ignored-check'
                res.setdefault('ignored', 0)
                res['ignored'] += 1
            elif is_reach:
                reach_seen += 1
                ob['kind'] = 'vacuity-guard(must fail)'
                if r['status'] != 'FAILURE':
                    reach_bad.append(ob)
            elif '.unwind.' in r['property'] or 'unwinding assertion' in desc:
                ob['kind'] = 'unwinding-assertion'
                if r['status'] != 'SUCCESS':
                    unwind_fail.append(ob)
            else:
                ob['kind'] = 'obligation'
                if r['status'] == 'FAILURE':
                    ob['trace'] = r.get('trace', [])
                    failed.append(ob)
                elif r['status'] != 'SUCCESS':
                    unwind_fail.append(ob)
            res['obligations'].append(ob)
        names = ['%s %s' % (o['id'], o['desc']) for o in res['obligations']]
        missing = [p for p in g.get('expect', []) if not any(re.search(p, n) for n in names)]
        if failed:
            res['status'] = 'fail'
            res['failed'] = failed
        elif reach_seen == 0 or reach_bad:
            res['why'] = 'vacuity guard: reach assertion missing or not failing (harness is vacuous)'
        elif unwind_fail:
            res['why'] = 'unwinding assertion / undecided obligation: ' + ', '.join(o['id'] for o in unwind_fail[:5])
        elif missing:
            res['why'] = 'pinned obligation pattern matched nothing: ' + ', '.join(missing)
        else:
            res['status'] = 'pass'
        return res
    except Drift as e:
        res['why'] = str(e)
        return res
    finally:
        res['wall_s'] = round(time.time() - t0, 2)


def trace_inputs(trace, harness, wanted):
    """last value assigned to each wanted harness-local variable in a cbmc JSON trace"""
    vals = {}
    for st in trace:
        if st.get('stepType') != 'assignment':
            continue
        lhs = st.get('lhs', '')
        fn = (st.get('sourceLocation') or {}).get('function', '')
        base = lhs.split('[')[0].split('.')[0]
        if base in wanted or lhs in wanted:
            v = st.get('value', {})
            if fn == harness or st.get('assignmentType') == 'variable' and fn in ('', harness):
                if 'binary' in v and v.get('name') in ('integer', 'boolean', None) :
                    vals[lhs] = str(int(v['binary'], 2))    # unsigned reading of the bit pattern
                elif 'data' in v:
                    vals[lhs] = v['data']
                elif 'elements' in v:
                    for e in v['elements']:
                        ev = e.get('value', {})
                        if 'data' in ev:
                            vals['%s[%s]' % (lhs, e.get('index'))] = ev['data']
    return vals


def native_replay(unit, udir, g, inputs, work):
    rp = g.get('replay')
    if not rp:
        return None
    exe = os.path.join(work, 'replay_%s' % g['name'])
    srcs = [os.path.join(udir, rp['driver'])] + [os.path.join(REPO, s) for s in rp.get('repo_sources', [])]
    cmd = ['g++'] + BASE_CXXFLAGS + rp.get('cxxflags', []) + ['-I' + os.path.join(work, 'frag'), '-I' + udir, '-I' + os.path.join(VERIF, 'units', 'common')] + srcs + ['-o', exe] + rp.get('libs', []) + ['-lpthread']
    rc, out, err, dt = sh(cmd, timeout=600, mem=False)
    if rc != 0:
        return {'built': False, 'cmd': ' '.join(cmd), 'output': (err + out)[-2000:], 'reproduced': False}
    args = [exe, rp['case']] + ['%s=%s' % (k, v) for k, v in sorted(inputs.items())]
    rc, out, err, dt = sh(args, timeout=120, mem=False)
    return {'built': True, 'build_cmd': ' '.join(cmd), 'run_cmd': ' '.join(args), 'exit': rc, 'output': (out + err)[-4000:],
            'reproduced': rc == 1 and 'REPRODUCED' in out}


# ----------------------------------------------------------------------------- known findings

def load_findings():
    fs = []
    p = os.path.join(VERIF, 'known_findings.txt')
    if os.path.exists(p):
        for line in open(p):
            line = line.strip()
            if line.startswith('finding:'):
                m = re.match(r'finding:\s+property=(\S+)\s+obligation=(\S+)\s+(.*)$', line)
                if m:
                    fs.append({'property': m.group(1), 'obligation': m.group(2), 'text': m.group(3)})
    return fs


# ----------------------------------------------------------------------------- check driver

def slim_trace(trace, limit=400):
    out = []
    for st in trace:
        if st.get('hidden'):
            continue
        t = st.get('stepType')
        if t == 'assignment':
            v = st.get('value', {})
            out.append({'fn': (st.get('sourceLocation') or {}).get('function'), 'line': (st.get('sourceLocation') or {}).get('line'),
                        'lhs': st.get('lhs'), 'value': v.get('data', v.get('name'))})
        elif t in ('function-call', 'function-return'):
            out.append({'step': t, 'fn': (st.get('function') or {}).get('displayName')})
        elif t == 'failure':
            out.append({'step': 'failure', 'property': st.get('property'), 'reason': st.get('reason'),
                        'line': (st.get('sourceLocation') or {}).get('line'), 'file': (st.get('sourceLocation') or {}).get('file')})
    return out[-limit:]


def scan_assumes(udir, unit):
    found = []
    for src in unit.get('cxx', []) + unit.get('c', []) + unit.get('extra_scan', []):
        p = os.path.join(udir, src)
        if not os.path.exists(p):
            continue
        for i, line in enumerate(open(p), 1):
            if '__CPROVER_assume' in line:
                found.append('%s/%s:%d: %s' % (unit['name'], src, i, line.strip()[:160]))
    return found


def run_unit(name, prop, tier, only_groups=None, sabotage=None):
    """run all groups of a unit serving prop at tier. sabotage = dict(path-or-fragment, re, to) applied to staged copies"""
    unit, udir = load_unit(name)
    work = tempfile.mkdtemp(prefix='vx_%s_' % name)
    out = {'unit': name, 'groups': [], 'extraction': None, 'drift': None, 'assumes': scan_assumes(udir, unit),
           'trusted_base': unit.get('trusted_base', []), 'assumptions': unit.get('assumptions', []), 'dropped': unit.get('dropped', [])}
    try:
        try:
            if sabotage:
                unit = dict(unit)
                unit['stage'] = [dict(e) for e in unit.get('stage', [])]
                hit = False
                for e in unit['stage']:
                    if e.get('name') == sabotage['target'] or e.get('path') == sabotage['target']:
                        if e['kind'] == 'verbatim':
                            e['kind'] = 'shadow'
                        e['rewrites'] = list(e.get('rewrites', [])) + [{k: sabotage[k] for k in ('re', 'lit', 'to', 'count', 'dotall') if k in sabotage}]
                        hit = True
                if not hit:
                    raise Drift('sabotage target %s not staged' % sabotage['target'])
            out['extraction'] = stage(unit, udir, work)
        except Drift as e:
            out['drift'] = str(e)
            return out
        builder = Builder(unit, udir, work)
        groups = [g for g in unit['groups']
                  if (prop is None or prop in g.get('props', unit.get('properties', [])))
                  and (tier == 'thorough' or g.get('tier', 'quick') == 'quick')
                  and (only_groups is None or g['name'] in only_groups)]
        # pre-compile sequentially (shared objects), then run groups in parallel
        seen = set()
        for g in groups:
            defines = tuple(sorted(list(unit.get('defines', [])) + list(g.get('defines', [])) + list(g.get('defines_tier', {}).get(tier, []))))
            if defines not in seen:
                seen.add(defines)
                try:
                    builder.objs(list(defines))
                except Drift:
                    pass
        with ThreadPoolExecutor(max_workers=NCPU) as ex:
            futs = [ex.submit(run_group, unit, udir, work, builder, g, tier) for g in groups]
            results = [f.result() for f in futs]
        # native replay for failures
        for g, r in zip(groups, results):
            if r['status'] == 'fail':
                for ob in r['failed']:
                    rp = g.get('replay')
                    inputs = trace_inputs(ob.get('trace', []), g['harness'], set(rp['vars'])) if rp else {}
                    ob['inputs'] = inputs
                    ob['native'] = native_replay(unit, udir, g, inputs, work) if rp else None
                    ob['trace'] = slim_trace(ob.get('trace', []))
        out['groups'] = results
        out['build_log'] = builder.log
        return out
    finally:
        shutil.rmtree(work, ignore_errors=True)


def units_for(prop):
    r = []
    for n in all_units():
        u, _ = load_unit(n)
        if prop in u.get('properties', []):
            r.append(n)
    return r


def check(prop, tier, seed=0):
    t0 = time.time()
    findings = [f for f in load_findings() if f['property'] == prop]
    units = units_for(prop)
    if not units:
        print('no unit serves property %s' % prop)
        return 2
    runs = [run_unit(n, prop, tier) for n in units]
    undecided, violations, known = [], [], []
    n_obl = n_dis = 0
    samples, groups_ev = [], []
    bounded_any = False
    for ru in runs:
        if ru['drift']:
            undecided.append('%s: %s' % (ru['unit'], ru['drift']))
            continue
        for r in ru['groups']:
            obs = [o for o in r['obligations'] if o['kind'] == 'obligation']
            n_obl += len(obs)
            n_dis += sum(1 for o in obs if o['status'] == 'SUCCESS')
            if r.get('bounded'):
                bounded_any = True
            groups_ev.append({'unit': r['unit'], 'group': r['group'], 'status': r['status'], 'functions_under_contract': r['functions'],
                              'enforced': r['enforce'], 'callee_contracts_assumed_at_call_sites': r['replace'], 'backend': r['backend'],
                              'solver_s': r['solver_s'], 'unwind': r['unwind'],
                              'loop_closure': ('BOUNDED(%s)' % r['bounded']) if r.get('bounded') else ('width-complete unwinding' if r['unwind'] else 'loop-free or loop contracts'),
                              'obligations': len(obs), 'discharged': sum(1 for o in obs if o['status'] == 'SUCCESS'), 'why': r['why'],
                              'ignored_checks': r.get('ignored', 0), 'ignored_checks_rule': r.get('ignore_rule', '')})
            if r['status'] == 'undecided':
                undecided.append('%s/%s: %s' % (r['unit'], r['group'], r['why']))
            elif r['status'] == 'fail':
                for ob in r['failed']:
                    name = '%s %s' % (ob['id'], ob['desc'])
                    kf = [f for f in findings if re.search(f['obligation'], name)]
                    if kf:
                        known.append((kf[0], r, ob))
                        n_obl -= 1      # a listed finding is reported separately, not counted as an open obligation
                    else:
                        violations.append((r, ob))
            for o in obs[:2]:
                if len(samples) < 12:
                    samples.append({'unit': r['unit'], 'group': r['group'], 'obligation': o['id'], 'description': o['desc'], 'status': o['status']})
    # sabotage self-test (vacuity guard 3): thorough tier runs all, quick tier those marked quick
    selftests = []
    for n in units:
        u, _ = load_unit(n)
        for sb in u.get('sabotage', []):
            if prop not in sb.get('props', u.get('properties', [])):
                continue
            if tier != 'thorough' and not sb.get('quick'):
                continue
            ok, detail = run_sabotage(n, sb, tier)
            selftests.append({'unit': n, 'sabotage': sb['name'], 'caught': ok, 'detail': detail})
            if not ok:
                undecided.append('%s: sabotage %s not caught (check is blind): %s' % (n, sb['name'], detail))
    # output
    rc = 0
    for f, r, ob in known:
        print('KNOWN-FINDING: property=%s obligation=%s %s' % (prop, ob['id'], f['text']))
    os.makedirs(os.path.join(VERIF, 'replays'), exist_ok=True)
    for r, ob in violations:
        h = hashlib.sha1(('%s%s%s' % (r['group'], ob['id'], json.dumps(ob.get('inputs'), sort_keys=True))).encode()).hexdigest()[:10]
        path = os.path.join(VERIF, 'replays', '%s-%s-%s.json' % (prop, re.sub(r'[^A-Za-z0-9_.]+', '_', ob['id'])[:60], h))
        nat = ob.get('native')
        reproduced = bool(nat and nat.get('reproduced'))
        json.dump({'property': prop, 'unit': r['unit'], 'group': r['group'], 'harness': r['harness'], 'failed_obligation': ob['id'],
                   'description': ob['desc'], 'inputs': ob.get('inputs'), 'native_replay': nat, 'reproduced_on_real_code': reproduced,
                   'verifier_trace': ob.get('trace'), 'commands': r['cmds'], 'tier': tier}, open(path, 'w'), indent=1)
        print('VIOLATION property=%s replay=%s%s' % (prop, path, '' if reproduced else ' no-failing-input-found'))
        print('  failed obligation: %s — %s (unit %s, group %s)' % (ob['id'], ob['desc'], r['unit'], r['group']))
        rc = 1
    if undecided and rc == 0:
        rc = 2
    for u in undecided:
        print('UNDECIDED: ' + u)
    write_evidence(prop, tier, seed, runs, groups_ev, n_obl, n_dis, samples, bounded_any, len(violations), known, undecided, time.time() - t0, selftests)
    print('%s tier=%s units=%s obligations=%d discharged=%d violations=%d known=%d undecided=%d wall=%.1fs -> exit %d'
          % (prop, tier, ','.join(units), n_obl, n_dis, len(violations), len(known), len(undecided), time.time() - t0, rc))
    return rc


def write_evidence(prop, tier, seed, runs, groups_ev, n_obl, n_dis, samples, bounded_any, nviol, known, undecided, wall, selftests=()):
    level = LEVELS.get(prop, 'other')
    tb, assumes, dropped, extraction = [], [], [], {}
    for ru in runs:
        tb += ru['trusted_base']
        assumes += ru['assumes']
        dropped += ru['dropped']
        extraction[ru['unit']] = ru['extraction'] if ru['extraction'] else {'drift': ru['drift']}
    assumptions = []
    for ru in runs:
        assumptions += ru['assumptions']
    # a bounded stand-in is never counted as proved: for a proof-level property the obligations of BOUNDED groups are reported
    # under their own keys and left out of obligations/discharged
    b_obl = sum(g['obligations'] for g in groups_ev if g['loop_closure'].startswith('BOUNDED'))
    b_dis = sum(g['discharged'] for g in groups_ev if g['loop_closure'].startswith('BOUNDED'))
    if level == 'proof':
        n_obl, n_dis = n_obl - b_obl, n_dis - b_dis
    ev = {
        'property_id': prop, 'tier': tier, 'seed': seed, 'level': level,
        'coverage': {
            'obligations': n_obl, 'discharged': n_dis,
            'bounded_standin_obligations': b_obl, 'bounded_standin_discharged': b_dis,
            'checker_cmd': 'goto-cc (C++ front end on staged real code; C front end on contracts) | goto-instrument --dfcc <harness> --enforce-contract f [--replace-call-with-contract g] [--apply-loop-contracts] | cbmc --json-ui --trace (per group; exact command lines under groups[].cmds in replay files)',
            'trusted_base': sorted(set(tb)),
            'explanation': EXPLAIN.get(prop, ''),
            'groups': groups_ev,
            'bounded_groups': [g['group'] for g in groups_ev if g['loop_closure'].startswith('BOUNDED')],
            'unbounded_or_width_complete_groups': [g['group'] for g in groups_ev if not g['loop_closure'].startswith('BOUNDED')],
            'extraction': extraction,
            'dropped_by_extraction': sorted(set(dropped)),
            'cprover_assume_scan': assumes,
            'known_findings_reported': ['%s: %s' % (ob['id'], f['text']) for f, r, ob in known],
            'undecided': undecided,
            'sabotage_selftests': list(selftests),
            'samples': samples or [{'note': 'no obligations generated'}],
            'solver_time_s': round(sum(g['solver_s'] for g in groups_ev), 2),
        },
        'assumptions': sorted(set(assumptions)),
        'wall_s': round(wall, 2),
        'violations': nviol,
    }
    evdir = os.environ.get('VX_EVIDENCE_DIR', os.path.join(VERIF, 'evidence'))     # seeded-mutant runs write elsewhere
    os.makedirs(evdir, exist_ok=True)
    json.dump(ev, open(os.path.join(evdir, prop + '.json'), 'w'), indent=1)


def load_meta():
    p = os.path.join(VERIF, 'units', 'meta.py')
    spec = importlib.util.spec_from_file_location('vx_meta', p)
    mod = importlib.util.module_from_spec(spec)
    spec.loader.exec_module(mod)
    return mod.LEVELS, mod.EXPLAIN


LEVELS, EXPLAIN = {}, {}


def replay_file(prop, path):
    d = json.load(open(path))
    unit, udir = load_unit(d['unit'])
    g = [x for x in unit['groups'] if x['name'] == d['group']][0]
    work = tempfile.mkdtemp(prefix='vx_replay_')
    try:
        if g.get('replay') and d.get('inputs') is not None:
            try:
                stage(unit, udir, work)
            except Drift as e:
                print('UNDECIDED: ' + str(e))
                return 2
            nat = native_replay(unit, udir, g, d['inputs'], work)
            print(json.dumps(nat, indent=1))
            if nat and nat.get('reproduced'):
                print('VIOLATION property=%s replay=%s' % (prop, path))
                return 1
            print('native replay does not reproduce on the current tree')
            return 0
    finally:
        shutil.rmtree(work, ignore_errors=True)
    # no native driver: re-run the group
    ru = run_unit(d['unit'], prop, d.get('tier', 'quick'), only_groups=[d['group']])
    if ru['drift']:
        print('UNDECIDED: ' + ru['drift'])
        return 2
    for r in ru['groups']:
        if r['status'] == 'fail' and any(o['id'] == d['failed_obligation'] for o in r['failed']):
            print('VIOLATION property=%s replay=%s no-failing-input-found' % (prop, path))
            return 1
        if r['status'] == 'undecided':
            print('UNDECIDED: ' + r['why'])
            return 2
    print('obligation %s is discharged on the current tree' % d['failed_obligation'])
    return 0


def run_sabotage(name, sb, tier):
    ru = run_unit(name, None, tier, only_groups=sb['groups'], sabotage=sb)
    if ru['drift']:
        return False, 'drift: ' + ru['drift']
    failed = []
    for r in ru['groups']:
        for ob in r.get('failed', []):
            failed.append('%s %s' % (ob['id'], ob['desc']))
        if r['status'] == 'undecided':
            failed.append('UNDECIDED ' + r['why'])
    hit = [f for f in failed if re.search(sb['expect_fail'], f)]
    return bool(hit), ('failed as expected: ' + hit[0][:120]) if hit else ('expected /%s/ to fail; failed: %s' % (sb['expect_fail'], failed[:3]))


def selftest(name, tier='quick'):
    """sabotage self-test: every listed sabotage of the staged copy must make a named obligation fail"""
    unit, udir = load_unit(name)
    bad = 0
    for sb in unit.get('sabotage', []):
        if tier != 'thorough' and not sb.get('quick'):
            print('SELFTEST %s/%s: skipped at tier %s (runs in the thorough tier)' % (name, sb['name'], tier))
            continue
        ok, detail = run_sabotage(name, sb, tier)
        print('SELFTEST %s/%s: %s — %s' % (name, sb['name'], 'caught' if ok else 'MISSED', detail))
        if not ok:
            bad += 1
    return 0 if bad == 0 else 2


def selfcheck():
    ok = True
    for tool in ('cbmc', 'goto-cc', 'goto-instrument', 'g++', 'cvc5'):
        if not shutil.which(tool):
            print('missing tool: ' + tool)
            ok = False
    rc, out, err, _ = sh(['cbmc', '--version'], timeout=20)
    print('cbmc ' + out.strip())
    for d in ('evidence', 'replays'):
        os.makedirs(os.path.join(VERIF, d), exist_ok=True)
    return 0 if ok else 1


def main(argv):
    global LEVELS, EXPLAIN
    LEVELS, EXPLAIN = load_meta()
    if len(argv) < 2:
        print(__doc__)
        return 2
    cmd = argv[1]
    if cmd == 'selfcheck':
        return selfcheck()
    if cmd == 'check':
        prop = argv[2]
        tier = os.environ.get('VERIF_TIER', 'quick')
        replay = None
        i = 3
        while i < len(argv):
            if argv[i] == '--tier':
                tier = argv[i + 1]; i += 2
            elif argv[i] == '--replay':
                replay = argv[i + 1]; i += 2
            else:
                i += 1
        if replay:
            return replay_file(prop, replay)
        seed = int(os.environ.get('VERIF_SEED', '0') or 0)
        return check(prop, tier, seed)
    if cmd == 'selftest':
        return selftest(argv[2], argv[3] if len(argv) > 3 else 'quick')
    if cmd == 'group':  # debugging: vx.py group <unit> <group> [tier]
        ru = run_unit(argv[2], None, argv[4] if len(argv) > 4 else 'quick', only_groups=argv[3].split(','))
        if ru['drift']:
            print('DRIFT', ru['drift'])
            return 2
        seen_why = set()
        for r in ru['groups']:
            if r['why'] in seen_why and r['why']:
                print('== %s: %s (same reason)' % (r['group'], r['status']))
                continue
            seen_why.add(r['why'])
            print('== %s: %s %s (%.1fs)' % (r['group'], r['status'], r['why'], r['solver_s']))
            for o in r['obligations']:
                if (o['status'] == 'FAILURE' and o['kind'] not in ('vacuity-guard(must fail)', 'ignored-check')) or os.environ.get('VX_VERBOSE'):
                    print('   %-8s %s  %s' % (o['status'], o['id'], o['desc'][:110]))
            for ob in r.get('failed', [])[:int(os.environ.get('VX_SHOW', '1'))]:
                print('   inputs:', ob.get('inputs'))
                if ob.get('native'):
                    print('   native:', ob['native'].get('reproduced'), ob['native'].get('output', '')[-300:])
                if os.environ.get('VX_TRACE'):
                    for st in ob.get('trace', [])[-int(os.environ['VX_TRACE']):]:
                        print('      ', st)
        return 0
    print('unknown command')
    return 2


if __name__ == '__main__':
    sys.exit(main(sys.argv))
