// unit vyukov — C07. Real text: enqueue_with / dequeue_with / front / empty / capacity / constructor body of
// cds::container::VyukovMPMCCycleQueue (fragments). Shell: plain struct with the members the fragments refer to.
#include <cds/details/defs.h>
extern "C" void vx_env(const void* addr);
extern "C" void vx_after(const void* addr, uint64_t oldv, uint64_t newv);
extern "C" void vx_loaded_hook(const void* addr);
#define VX_ATOMIC_ENV(a) vx_env((const void*)(a))
#define VX_ATOMIC_AFTER(a, o, n) vx_after((const void*)(a), (uint64_t)(o), (uint64_t)(n))
template <typename T> static inline T vx_ld(const T* a, T v) { vx_loaded_hook((const void*)a); return v; }
#define VX_ATOMIC_LOADED(a, v) vx_ld(a, v)
#define VX_CAS_WEAK_MAY_FAIL
#include <cds/algo/atomic.h>
#include <cds/algo/backoff_strategy.h>
#ifndef VX_CAP
#define VX_CAP 4
#endif
struct shell_queue {
    typedef int value_type;
    typedef cds::backoff::empty back_off;
    struct value_cleaner { void operator()( int& ) const {} };
    struct item_counter { size_t n; item_counter() : n(0) {} void operator++() { ++n; } void operator--() { --n; } size_t value() const { return n; } };
    typedef atomics::atomic<size_t> sequence_type;
    struct cell_type { sequence_type sequence; value_type data; };
    struct buffer { mutable cell_type m[VX_CAP]; size_t capacity() const { return VX_CAP; } cell_type& operator[]( size_t i ) const { return m[i]; } };
    buffer m_buffer; size_t m_nBufferMask; sequence_type m_posEnqueue; sequence_type m_posDequeue; item_counter m_ItemCounter;
#include <enqueue_with.inc>
#include <dequeue_with.inc>
#include <front.inc>
#include <empty.inc>
#include <capacity.inc>
    void vx_ctor( size_t nCapacity )
#include <ctor_body.inc>
};
static shell_queue g_q;
struct vx_enq { int v; void operator()( int& dest ) { dest = v; } };
struct vx_deq { int* out; void operator()( int& src ) { *out = src; } };
extern "C" {
size_t* w_q_enq(void) { return &g_q.m_posEnqueue.v_; }  size_t* w_q_deq(void) { return &g_q.m_posDequeue.v_; }
size_t w_seq(size_t i) { return g_q.m_buffer.m[i].sequence.v_; }  void w_seq_set(size_t i, size_t v) { g_q.m_buffer.m[i].sequence.v_ = v; }
int w_data(size_t i) { return g_q.m_buffer.m[i].data; }  void w_data_set(size_t i, int v) { g_q.m_buffer.m[i].data = v; }
const void* w_seq_addr(size_t i) { return &g_q.m_buffer.m[i].sequence.v_; }  int* w_data_addr(size_t i) { return &g_q.m_buffer.m[i].data; }
size_t* w_q_mask(void) { return &g_q.m_nBufferMask; }
bool w_q_enqueue(int v) { vx_enq f; f.v = v; return g_q.enqueue_with<vx_enq>(f); }
bool w_q_dequeue(int* o) { vx_deq f; f.out = o; return g_q.dequeue_with<vx_deq>(f); }
int* w_q_front(void) { return g_q.front(); }
bool w_q_empty(void) { return g_q.empty(); }
void w_q_ctor(void) { g_q.m_nBufferMask = VX_CAP - 1; g_q.vx_ctor(VX_CAP); }
}
