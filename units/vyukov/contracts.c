/* unit vyukov — property C07. The queue state includes operations of OTHER threads that are in flight:
     position p in [deq, enq): cell sequence == p+1 (published) or == p (claimed by an enqueuer, not yet published)
     position p in [enq, deq+cap): cell sequence == p (free) or == p-cap+1 (claimed by a dequeuer, not yet released)
   The environment step (before each atomic access of the function under check) performs any enabled step of another
   thread: claim an enqueue position, publish a claimed cell, claim a dequeue position, release a claimed cell.
   "Enqueue fails only if capacity items are present at some instant during the call" / "dequeue fails only if empty at some
   instant" are checked with ghost flags set at the instant the function reads the opposite counter. */
#include <vx_c.h>
#ifndef VX_CAP
#define VX_CAP 4
#endif
#ifndef VX_BUDGET
#define VX_BUDGET 3
#endif
#define MASK (VX_CAP - 1)
static uint64_t nondet_u64(void) { uint64_t v; return v; }
static int nondet_int(void) { int v; return v; }
int vx_budget; int vx_active;
int vx_cas_weak_fails(void) { if (vx_budget > 0 && (nondet_int() & 1)) { vx_budget--; return 1; } return 0; }
size_t *ENQ, *DEQ;
size_t w_seq(size_t); void w_seq_set(size_t, size_t); int w_data(size_t); void w_data_set(size_t, int); const void* w_seq_addr(size_t); int* w_data_addr(size_t);
#define SEQ(i) w_seq(i)
size_t* w_q_enq(void); size_t* w_q_deq(void); size_t* w_q_mask(void);
vx_bool w_q_enqueue(int); vx_bool w_q_dequeue(int*); int* w_q_front(void); vx_bool w_q_empty(void); void w_q_ctor(void);
int vx_full_seen, vx_empty_seen;      /* ghost: the queue was full / empty at an instant at which the function read the opposite counter */
int vx_my_enq_claimed, vx_my_deq_claimed; size_t vx_my_pos;

/* position of cell i inside the window [deq, deq+cap) */
#define POS_OF(i, deq) ((deq) + ((((size_t)(i)) - (deq)) & MASK))
static int wf(void) {
    size_t enq = *ENQ, deq = *DEQ;
    if (enq - deq > VX_CAP) return 0;
    for (unsigned i = 0; i < VX_CAP; ++i) {
        size_t p = POS_OF(i, deq), s = w_seq(i);
        if (p - deq < enq - deq) { if (!(s == p + 1 || s == p)) return 0; }
        else { if (!(s == p || s == p - VX_CAP + 1)) return 0; }
    }
    return 1;
}
/* Interference of the other threads as a relation (rely): any number of their steps leads to a state that again satisfies
   the representation invariant, in which both counters have only moved forward, and which respects my claims: an
   unpublished enqueue claim of mine at position m blocks dequeuers at m (deq' <= m) and keeps my cell as it is; an unreleased
   dequeue claim of mine at position m blocks enqueuers of the next round (enq' <= m + cap) and keeps my cell as it is.
   (A superset of the reachable interference: sound for the obligations, slightly coarser than the real protocol.) */
static void other_steps(void) {
    size_t enq0 = *ENQ, deq0 = *DEQ;
    size_t de = nondet_u64(), dd = nondet_u64(); __CPROVER_assume(de <= VX_CAP && dd <= VX_CAP);
    size_t myseq = 0, mydata = 0; unsigned mycell = (unsigned)(vx_my_pos & MASK);
    int mine = (vx_my_enq_claimed == 1 || vx_my_deq_claimed == 1);
    if (mine) { myseq = w_seq(mycell); mydata = (size_t)w_data(mycell); }
    *ENQ = enq0 + de; *DEQ = deq0 + dd;
    /* a cell's sequence number only ever moves forward along its life cycle p -> p+1 -> p+cap -> p+cap+1 ... */
    for (unsigned i = 0; i < VX_CAP; ++i) { size_t s0 = w_seq(i), s1 = nondet_u64(); __CPROVER_assume(s1 - s0 <= 4 * VX_CAP); int d0 = w_data(i), d1 = nondet_int(); if (s1 == s0) d1 = d0; w_seq_set(i, s1); w_data_set(i, d1); }
    if (mine) { w_seq_set(mycell, myseq); w_data_set(mycell, (int)mydata); }
    __CPROVER_assume(wf());
    if (vx_my_enq_claimed == 1) __CPROVER_assume(*DEQ - deq0 <= vx_my_pos - deq0);                 /* nobody dequeues past my unpublished cell */
    if (vx_my_deq_claimed == 1) __CPROVER_assume(*ENQ - enq0 <= vx_my_pos + VX_CAP - enq0);        /* nobody enqueues into my unreleased cell */
    /* published items that stay in the queue keep their data: cells in [deq', enq0) that were published are unchanged — not
       needed by the obligations below (they speak about my own cell and the counters) */
}
void vx_env(const void* addr) {
    if (!vx_active) return;
    if (vx_budget > 0 && (nondet_int() & 1)) { vx_budget--; other_steps(); }
}
void vx_loaded_hook(const void* addr) {
    if (!vx_active) return;
    if (addr == (const void*)DEQ && *ENQ - *DEQ == VX_CAP) vx_full_seen = 1;
    if (addr == (const void*)ENQ && *ENQ == *DEQ) vx_empty_seen = 1;
}
void vx_after(const void* addr, uint64_t o, uint64_t n) {
    if (!vx_active) return;
    if (addr == (const void*)ENQ) {
        __CPROVER_assert(n == o + 1 && w_seq(o & MASK) == o && o - *DEQ < VX_CAP, "C07.guarantee: an enqueuer claims position enq only if its cell is free and fewer than capacity items are present");
        vx_my_enq_claimed = 1; vx_my_pos = o;
    } else if (addr == (const void*)DEQ) {
        __CPROVER_assert(n == o + 1 && w_seq(o & MASK) == o + 1 && *ENQ != o, "C07.guarantee: a dequeuer claims position deq only if its cell is published (the oldest item)");
        vx_my_deq_claimed = 1; vx_my_pos = o;
    } else {
        for (unsigned i = 0; i < VX_CAP; ++i) if (addr == w_seq_addr(i)) {
            if (vx_my_enq_claimed == 1 && i == (vx_my_pos & MASK)) { __CPROVER_assert(o == vx_my_pos && n == vx_my_pos + 1, "C07.guarantee: an enqueuer publishes exactly the cell it claimed"); vx_my_enq_claimed = 2; }
            else if (vx_my_deq_claimed == 1 && i == (vx_my_pos & MASK)) { __CPROVER_assert(o == vx_my_pos + 1 && n == vx_my_pos + VX_CAP, "C07.guarantee: a dequeuer releases exactly the cell it claimed, for the next round"); vx_my_deq_claimed = 2; }
            else __CPROVER_assert(0, "C07.guarantee: writes a cell sequence it did not claim");
        }
    }
}
static void setup(void) {
    ENQ = w_q_enq(); DEQ = w_q_deq(); *w_q_mask() = MASK;
    size_t deq = nondet_u64(), used = nondet_u64(); __CPROVER_assume(used <= VX_CAP);
    *DEQ = deq; *ENQ = deq + used;
    for (unsigned i = 0; i < VX_CAP; ++i) { w_seq_set(i, nondet_u64()); w_data_set(i, nondet_int()); }
    __CPROVER_assume(wf());
    int b = nondet_int(); __CPROVER_assume(b >= 0 && b <= VX_BUDGET); vx_budget = b; vx_active = 1;
}
void h_ctor(void) {
    ENQ = w_q_enq(); DEQ = w_q_deq();
    w_q_ctor();
    __CPROVER_assert(*ENQ == 0 && *DEQ == 0 && wf(), "C07.ctor: the constructor establishes the empty queue (cell i has sequence i)");
    VX_REACH_GUARD();
}
void h_enqueue(void) {
    setup(); int v = nondet_int();
    vx_bool r = w_q_enqueue(v);
    vx_active = 0;
    if (r) {
        __CPROVER_assert(vx_my_enq_claimed == 2, "C07.enqueue: success means one position was claimed and published");
        __CPROVER_assert(w_data(vx_my_pos & MASK) == v && (w_seq(vx_my_pos & MASK) == vx_my_pos + 1), "C07.enqueue: the value is stored in the claimed cell and published");
    } else {
        __CPROVER_assert(vx_my_enq_claimed == 0, "C07.enqueue: a failed enqueue claimed nothing");
        __CPROVER_assert(vx_full_seen, "C07.enqueue: fails only if capacity items were present at some instant during the call");
    }
    __CPROVER_assert(wf(), "C07.enqueue: the representation invariant (with in-flight operations of other threads) is preserved");
    VX_REACH_GUARD();
}
void h_dequeue(void) {
    setup(); int out = 0; int snap[VX_CAP];
    vx_bool r = w_q_dequeue(&out);
    vx_active = 0;
    if (r) {
        __CPROVER_assert(vx_my_deq_claimed == 2, "C07.dequeue: success means one position was claimed and released");
        __CPROVER_assert(out == w_data(vx_my_pos & MASK), "C07.dequeue: passes the item stored at the claimed (oldest) position");
    } else {
        __CPROVER_assert(vx_my_deq_claimed == 0, "C07.dequeue: a failed dequeue claimed nothing");
        __CPROVER_assert(vx_empty_seen, "C07.dequeue: fails only if the queue was empty at some instant during the call");
    }
    __CPROVER_assert(wf(), "C07.dequeue: the representation invariant is preserved");
    VX_REACH_GUARD();
}
/* single consumer: no other dequeuer (the environment never claims/releases dequeue positions) */
int vx_single_consumer;
void h_front(void) {
    setup();
    size_t d0 = *DEQ;
    int* p = w_q_front();
    vx_active = 0;
    if (p) __CPROVER_assert(w_seq(*DEQ & MASK) == *DEQ + 1 || *DEQ != d0, "C07.front: returns a published cell");
    if (p && *DEQ == d0) __CPROVER_assert(p == w_data_addr(d0 & MASK), "C07.front: returns the cell of the oldest item");
    if (!p) __CPROVER_assert(vx_empty_seen, "C07.front: null only if the queue was empty at some instant during the call");
    __CPROVER_assert(wf(), "C07.front: does not modify the queue");
    VX_REACH_GUARD();
}
void h_empty(void) {
    setup();
    vx_bool e = w_q_empty();
    vx_active = 0;
    if (e) __CPROVER_assert(vx_empty_seen, "C07.empty: reports empty only if the queue was empty at some instant during the call");
    __CPROVER_assert(wf(), "C07.empty: does not modify the queue");
    VX_REACH_GUARD();
}
