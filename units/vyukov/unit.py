# unit vyukov — property C07 (bounded Vyukov MPMC queue)
VQ = 'cds/container/vyukov_mpmc_cycle_queue.h'
MM = dict(re=r'memory_model::memory_order_(\w+)', to=r'atomics::memory_order_\1', count='1+', why='typedef-scope lookup inside the class fails in the front end; the stub atomics ignore the order (SC)')
TMP = dict(lit='value_cleaner()( cell->data );', to='{ value_cleaner vx_cleaner; vx_cleaner( cell->data ); }', count=1, why='T()(x) temporary crashes the front end; named object of the same stateless functor')


def frag(name, anchor, rewrites=None, **kw):
    d = dict(kind='fragment', path=VQ, name=name, anchor=anchor, rewrites=([MM] if name != 'capacity' else []) + (rewrites or []))
    d.update(kw)
    return d


def G(name, harness, fns, expect, unwind={'quick': 4, 'thorough': 5}, timeout={'quick': 900, 'thorough': 7200}):
    return dict(name=name, harness=harness, enforce=[], dfcc=False, functions=fns, expect=expect, props=['C07'], timeout=timeout, unwind=unwind, unwinding_assertions=False,
                # dif = (intptr_t)seq - (intptr_t)pos is computed with two's-complement wrap-around; it overflows (formally UB) only when
                # the positions cross 2^63, i.e. after 2^63 operations: noted, not alarmed
                checks=['--no-signed-overflow-check'], defines_tier={'quick': ['VX_CAP=2', 'VX_BUDGET=2'], 'thorough': ['VX_CAP=4', 'VX_BUDGET=3']},
                bounded='capacity 2 (quick) / 4 (thorough), positions fully symbolic 64-bit (across the wrap); in-flight enqueues/dequeues of other threads in every cell; <= 2-3 interference points and <= 3-4 loop iterations per call (retry loops are memoryless; longer runs are cut, not checked)')


UNIT = dict(
    properties=['C07'],
    stage=[
        frag('enqueue_with', r'template <typename Func>\s*bool enqueue_with\(\s*Func \w+\s*\)'),
        frag('dequeue_with', r'template <typename Func>\s*bool dequeue_with\(\s*Func \w+\s*\)', rewrites=[TMP]),
        frag('front', r'template <bool SC = c_single_consumer >\s*typename std::enable_if<SC, value_type \*>::type front\(\)', rewrites=[
            dict(re=r'template <bool SC = c_single_consumer >\s*typename std::enable_if<SC, value_type \*>::type front\(\)', to='value_type * front()', count=1, why='enable_if on a defaulted bool template parameter (SFINAE, unsupported); single_consumer = true instantiation'),
            dict(re=r'static_assert\( c_single_consumer, "[^"]*"\);', to='', count=1, why='compile-time check only')]),
        frag('empty', r'bool empty\(\) const'),
        frag('capacity', r'size_t capacity\(\) const', rewrites=[]),
        frag('ctor_body', r'VyukovMPMCCycleQueue\(\s*size_t nCapacity = 0\s*\)', body_only=True),
    ],
    decl_rules=[
        dict(path=VQ, re=r'typedef atomics::atomic<size_t> sequence_type;', count=1),
        dict(path=VQ, re=r'sequence_type\s+sequence;\s*value_type\s+data;', count=1),
        dict(path=VQ, re=r'size_t const\s+m_nBufferMask;', count=1),
        dict(path=VQ, re=r'sequence_type\s+m_posEnqueue;', count=1),
        dict(path=VQ, re=r'sequence_type\s+m_posDequeue;', count=1),
        dict(path=VQ, re=r', m_nBufferMask\( m_buffer\.capacity\(\) - 1 \)', count=1),
        dict(path=VQ, re=r'return dequeue_with\( \[\]\( value_type& \) \{\} \);', count=1),       # pop_front() == dequeue_with(no-op)
        dict(path='cds/intrusive/vyukov_mpmc_cycle_queue.h', re=r'return base_class::enqueue\( &data \);', count=1),      # the intrusive variant forwards to the container queue of T*
        dict(path='cds/intrusive/vyukov_mpmc_cycle_queue.h', re=r'return base_class::dequeue\( p \) \? p : nullptr;', count=1),
    ],
    cxx=['shim.cpp'], c=['contracts.c'], cxxflags=['-Dconstexpr=', '-Dnoexcept=', '-Dexplicit='],
    sabotage=[
        dict(name='dequeue_masked_empty_test', quick=True, target='dequeue_with', lit='if ( pos - m_posEnqueue.load( atomics::memory_order_relaxed ) == 0 )', to='if ( ( pos & m_nBufferMask ) == ( m_posEnqueue.load( atomics::memory_order_relaxed ) & m_nBufferMask ))', count=1,
             groups=['dequeue'], expect_fail=r'C07\.dequeue: fails only if'),
        dict(name='enqueue_publishes_wrong_seq', target='enqueue_with', lit='cell->sequence.store(pos + 1,', to='cell->sequence.store(pos + 2,', count=1, groups=['enqueue'], expect_fail=r'C07\.(guarantee|enqueue)'),
    ],
    trusted_base=[
        'rely: the interference of other threads is a relation (representation invariant with in-flight operations kept, counters and cell sequences only move forward, the caller\'s claimed cell untouched) — a superset of the real protocol steps',
        'SC atomic<T> stub (acquire/release on the cell sequence not checked); compare_exchange_weak may fail spuriously',
        'shell struct for the class template (members tied to the real declarations by declaration rules); value_type int, no-op cleaner/back-off/counter',
        'CBMC 6.11 C++ front end',
    ],
    assumptions=['BOUNDED: capacity 2 (quick) / 4 (thorough); <= 2-3 interference points and <= 3-4 loop iterations per call, longer runs cut',
                 'linearizability over whole histories is NOT decided; decided per call: claims only free/published cells, publishes/releases exactly its own cell, reports full/empty only if that held at an instant during the call, FIFO position = the oldest',
                 'dif = (intptr_t)seq - (intptr_t)pos computed with wrap-around (signed overflow at the 2^63 boundary noted, not alarmed)'],
    dropped=['template class context', 'enable_if on front()', 'memory_model typedef -> atomics constants'],
    groups=[
        dict(G('ctor', 'h_ctor', ['VyukovMPMCCycleQueue::VyukovMPMCCycleQueue (body)'], [r'C07\.ctor']), unwind=6, unwinding_assertions=True),
        G('enqueue', 'h_enqueue', ['VyukovMPMCCycleQueue::enqueue_with'], [r'C07\.enqueue']),
        G('dequeue', 'h_dequeue', ['VyukovMPMCCycleQueue::dequeue_with', 'pop_front (= dequeue_with(no-op), pinned by a declaration rule)'], [r'C07\.dequeue']),
        G('front', 'h_front', ['VyukovMPMCCycleQueue::front'], [r'C07\.front']),
        G('empty', 'h_empty', ['VyukovMPMCCycleQueue::empty'], [r'C07\.empty']),
    ],
)
