# unit pools — property C24 (object pools never hand one object to two holders); modular over the QUEUE CONTRACT (C07)
VP = 'cds/memory/vyukov_queue_pool.h'
TMPS = [dict(lit='cxx_allocator().New()', to='vx_cxx_new()', count='0+', why='T() temporary crashes the front end; same call on a named object (wrapper)'),
        dict(lit='cxx_allocator().Delete( p )', to='vx_cxx_delete( p )', count='0+', why='same'),
        dict(lit='std_allocator().deallocate( p, 1 )', to='vx_std_deallocate( p, 1 )', count='0+', why='same'),
        dict(lit='std_allocator().allocate(', to='vx_std_allocate(', count='0+', why='same'),
        dict(lit='return new( p ) value_type;', to='return vx_placement_new( p );', count='0+', why='placement new of the value type; default construction of the pool object in place'),
        dict(lit='p->~value_type();', to='vx_destroy( p );', count='0+', why='explicit destructor call through a typedef name (unsupported); destroys the pool object in place'),
        dict(lit='CDS_THROW_EXCEPTION( std::bad_alloc());', to='vx_throw();', count='0+', why='exception object not constructed; a throw ends the path')]


def frag(name, anchor, occ):
    return dict(kind='fragment', path=VP, name=name, anchor=anchor, occurrence=occ, rewrites=TMPS)


stage = []
for i, cls in enumerate(('vqp', 'lazy', 'bounded')):
    stage.append(frag(cls + '_allocate', r'value_type \* allocate\( size_t \w+ \)', i))
    stage.append(frag(cls + '_deallocate', r'void deallocate\( value_type \* \w+, size_t \w+ \)', i))
stage.append(frag('vqp_preallocate_pool', r'void preallocate_pool\([^)]*\)', 0))
stage.append(frag('vqp_from_pool', r'bool from_pool\( value_type \* \w+ \) const', 0))
stage.append(frag('bounded_preallocate_pool', r'void preallocate_pool\([^)]*\)', 1))
# the constructors are the entry points of the preallocation groups (whatever passes between them and preallocate_pool is inside the check)
CTOR_WHY = 'constructor of the class template -> member function vx_ctor of the shell; the member initialiser m_Queue( nCapacity ) becomes the first statement (ghost queue: capacity = requested size rounded up to a power of two, the documented contract of the dynamic-buffer Vyukov queue)'
stage.append(dict(kind='fragment', path=VP, name='vqp_ctor', anchor=r'(?<!_)vyukov_queue_pool\( size_t \w+ = 0 \)', rewrites=TMPS + [
    dict(re=r'(?<!_)vyukov_queue_pool\( size_t (\w+) = 0 \)\s*: m_Queue\( \1 \)\s*\{', to=r'void vx_ctor( size_t \1 ) { m_Queue.vx_construct( \1 );', count=1, why=CTOR_WHY)]))
stage.append(dict(kind='fragment', path=VP, name='bounded_ctor', anchor=r'bounded_vyukov_queue_pool\( size_t \w+ = 0 \)', rewrites=TMPS + [
    dict(re=r'bounded_vyukov_queue_pool\( size_t (\w+) = 0 \)\s*: m_Queue\( \1 \)\s*\{', to=r'void vx_ctor( size_t \1 ) { m_Queue.vx_construct( \1 );', count=1, why=CTOR_WHY)]))
stage.append(frag('bounded_from_pool', r'bool from_pool\( value_type \* \w+ \) const', 1))
stage.append(dict(kind='fragment', path='cds/memory/pool_allocator.h', name='pa_allocate', anchor=r'pointer allocate\( size_type \w+, void const \* /\*hint\*/ = 0\)', rewrites=[
    dict(re=r'static_assert\( sizeof\(value_type\) <= sizeof\(typename accessor_type::value_type\), "Incompatible type" \);', to='', count=1, why='compile-time check only'),
    dict(lit='accessor_type()().allocate( n )', to='vx_accessor().allocate( n )', count=1, why='T()() temporary; the accessor returns the pool object')]))
stage.append(dict(kind='fragment', path='cds/memory/pool_allocator.h', name='pa_deallocate', anchor=r'void deallocate\(pointer \w+, size_type \w+\) noexcept', rewrites=[
    dict(lit='accessor_type()().deallocate( reinterpret_cast<typename accessor_type::value_type *>( p ), n )', to='vx_accessor().deallocate( reinterpret_cast<vx_obj *>( p ), n )', count=1, why='T()() temporary; nested type of a template parameter -> the concrete pool value type')]))


def G(name, harness, fns, expect, unwind=12):
    return dict(name=name, harness=harness, enforce=[], dfcc=False, functions=fns, expect=expect, props=['C24'], timeout=600, unwind=unwind,
                bounded='push-retry loops: <= 3 failed pushes (a failed push changes nothing by the queue contract); preallocation of 4 objects; everything else loop-free')


UNIT = dict(
    properties=['C24'],
    stage=stage,
    decl_rules=[dict(path=VP, re=r'typedef cds::intrusive::VyukovMPMCCycleQueue< T, \w+ > queue_type', count=3),
                dict(path=VP, re=r'queue_type\s+m_Queue;', count=3)],
    cxx=['shim.cpp'], c=['contracts.c'], cxxflags=['-Dconstexpr=', '-Dnoexcept=', '-Dexplicit='],
    sabotage=[
        dict(name='lazy_free_after_push', quick=True, target='lazy_deallocate', lit='if ( !m_Queue.push( *p ))', to='m_Queue.push( *p );', count=1, groups=['lazy_deallocate'], expect_fail=r'C24\.(free|deallocate)'),
        dict(name='vqp_deletes_pool_object', target='vqp_deallocate', lit='if ( from_pool(p)) {', to='if ( !from_pool(p)) {', count=1, groups=['vqp_deallocate'], expect_fail=r'C24\.'),
        dict(name='bounded_allocate_drops_pop', target='bounded_allocate', lit='if ( p )\n                        goto ok;', to='if ( p && m_Queue.size())\n                        goto ok;', count=1, groups=['bounded_allocate'], expect_fail=r'C24\.allocate'),
    ],
    trusted_base=[
        'the queue CONTRACT (push adds the element or fails only if the free list is full at that instant; pop removes and returns an element or null only if empty at that instant; the element is owned by exactly one party) — this is C07, assumed here',
        'ghost heap (hands out only memory nobody holds); ghost accounting of where each object is',
        'shell structs for the three pool class templates and pool_allocator; traits -> concrete types (value_type = small struct, no-op back-off)',
        'CBMC 6.11 C++ front end',
    ],
    assumptions=['pool capacity 4, 6 heap objects, other holders act at most 3 times per call', 'callers deallocate only objects they hold (the precondition of deallocate)'],
    dropped=['template class context', 'placement new / explicit destructor call / allocator temporaries rewritten to wrappers with the same effect on the accounting'],
    groups=[
        G('vqp_allocate', 'h_vqp_allocate', ['vyukov_queue_pool::allocate'], [r'C24\.allocate']),
        G('vqp_deallocate', 'h_vqp_deallocate', ['vyukov_queue_pool::deallocate', 'vyukov_queue_pool::from_pool'], [r'C24\.deallocate']),
        G('vqp_preallocate', 'h_vqp_preallocate', ['vyukov_queue_pool::vyukov_queue_pool(size_t)', 'vyukov_queue_pool::preallocate_pool'], [r'C24\.preallocate']),
        G('lazy_allocate', 'h_lazy_allocate', ['lazy_vyukov_queue_pool::allocate'], [r'C24\.allocate']),
        G('lazy_deallocate', 'h_lazy_deallocate', ['lazy_vyukov_queue_pool::deallocate'], [r'C24\.deallocate']),
        G('bounded_allocate', 'h_bounded_allocate', ['bounded_vyukov_queue_pool::allocate'], [r'C24\.allocate', r'C24\.bounded']),
        G('bounded_deallocate', 'h_bounded_deallocate', ['bounded_vyukov_queue_pool::deallocate'], [r'C24\.deallocate']),
        G('bounded_preallocate', 'h_bounded_preallocate', ['bounded_vyukov_queue_pool::bounded_vyukov_queue_pool(size_t)', 'bounded_vyukov_queue_pool::preallocate_pool', 'bounded_vyukov_queue_pool::from_pool'], [r'C24\.preallocate']),
        G('pool_allocator', 'h_pool_allocator', ['pool_allocator::allocate', 'pool_allocator::deallocate'], [r'C24\.pool_allocator']),
    ],
)
