// unit pools — C24. Real text: allocate / deallocate / preallocate_pool / from_pool of the three Vyukov-queue pools
// (fragments of cds/memory/vyukov_queue_pool.h) and pool_allocator::allocate/deallocate.
// The queue is NOT inlined: m_Queue is a ghost object implementing the queue CONTRACT (push adds an element or fails only if
// the queue is full at some instant; pop removes and returns an element or returns null only if empty at some instant) —
// the caller is checked against the callee's contract. Heap allocator = ghost heap.
#include <cds/details/defs.h>
#include <cds/algo/atomic.h>
#include <cds/algo/backoff_strategy.h>
#include <stdexcept>
#include <cds/details/throw_exception.h>
struct vx_obj { int x; };
extern "C" {
    void vxq_construct(size_t n); int vxq_push(void* p); void* vxq_pop(void); size_t vxq_size(void); size_t vxq_capacity(void); int vxq_empty(void); void vxq_clear(void);
    void* vx_heap_new(void); void vx_heap_free(void* p); void* vx_block_alloc(size_t n); void vx_obj_constructed(void* p); void vx_obj_destroyed(void* p);
}
struct vx_queue {
    void vx_construct( size_t n ) { vxq_construct( n ); }
    bool push( vx_obj& v ) { return vxq_push(&v) != 0; }
    vx_obj* pop() { return (vx_obj*) vxq_pop(); }
    size_t size() const { return vxq_size(); }
    size_t capacity() const { return vxq_capacity(); }
    bool empty() const { return vxq_empty() != 0; }
    void clear() { vxq_clear(); }
};
struct shell_pool {
    typedef vx_obj value_type; typedef cds::backoff::empty back_off;
    vx_queue m_Queue; vx_obj* m_pFirst; vx_obj* m_pLast;
    static vx_obj* vx_cxx_new() { vx_obj* p = (vx_obj*) vx_heap_new(); vx_obj_constructed(p); return p; }
    static void vx_cxx_delete( vx_obj* p ) { vx_obj_destroyed(p); vx_heap_free(p); }
    static void vx_std_deallocate( vx_obj* p, size_t ) { vx_heap_free(p); }
    static vx_obj* vx_std_allocate( size_t n ) { return (vx_obj*) vx_block_alloc(n); }
    static vx_obj* vx_placement_new( vx_obj* p ) { vx_obj_constructed(p); return p; }
    static void vx_destroy( vx_obj* p ) { vx_obj_destroyed(p); }
};
struct shell_vqp : shell_pool {
#include <vqp_allocate.inc>
#include <vqp_deallocate.inc>
#include <vqp_preallocate_pool.inc>
#include <vqp_ctor.inc>
#include <vqp_from_pool.inc>
};
struct shell_lazy : shell_pool {
#include <lazy_allocate.inc>
#include <lazy_deallocate.inc>
};
struct shell_bounded : shell_pool {
#include <bounded_allocate.inc>
#include <bounded_deallocate.inc>
#include <bounded_preallocate_pool.inc>
#include <bounded_ctor.inc>
#include <bounded_from_pool.inc>
};
static shell_vqp g_vqp; static shell_lazy g_lazy; static shell_bounded g_bounded;
static shell_lazy& vx_accessor() { return g_lazy; }
struct shell_pool_allocator {
    typedef vx_obj value_type; typedef vx_obj* pointer; typedef size_t size_type;
#include <pa_allocate.inc>
#include <pa_deallocate.inc>
};
extern "C" {
void w_set_block(void* first, size_t n) { g_vqp.m_pFirst = g_bounded.m_pFirst = (vx_obj*)first; g_vqp.m_pLast = g_bounded.m_pLast = (vx_obj*)first + n; }
void* w_vqp_allocate(void) { return g_vqp.allocate(1); }      void w_vqp_deallocate(void* p) { g_vqp.deallocate((vx_obj*)p, 1); }
void w_vqp_construct(size_t n) { g_vqp.vx_ctor( n ); }    void* w_vqp_first(void) { return g_vqp.m_pFirst; } void* w_vqp_last(void) { return g_vqp.m_pLast; }
void* w_lazy_allocate(void) { return g_lazy.allocate(1); }    void w_lazy_deallocate(void* p) { g_lazy.deallocate((vx_obj*)p, 1); }
void* w_bounded_allocate(void) { return g_bounded.allocate(1); } void w_bounded_deallocate(void* p) { g_bounded.deallocate((vx_obj*)p, 1); }
void w_bounded_construct(size_t n) { g_bounded.vx_ctor( n ); } void* w_bounded_first(void) { return g_bounded.m_pFirst; } void* w_bounded_last(void) { return g_bounded.m_pLast; }
void* w_pa_allocate(void) { shell_pool_allocator a; return a.allocate(1); }  void w_pa_deallocate(void* p) { shell_pool_allocator a; a.deallocate((vx_obj*)p, 1); }
}
