/* unit pools — property C24, proved over the queue CONTRACT (C07 assumed, discharged for the sequential/in-flight model in
   unit vyukov) and a ghost heap. Each object is in exactly one place: FREE (heap memory not handed out), QUEUE (in the
   pool's free list), MINE (held by the caller), OTHER (held by another holder). A witness object W is followed
   (for-all elimination); the other objects are counted. Other threads' allocate/deallocate calls interleave before each
   queue operation (they move their own objects between QUEUE and OTHER and the heap). */
#include <vx_c.h>
#ifndef VX_CAP
#define VX_CAP 4
#endif
static int nondet_int(void) { int v; return v; }
static int count_state(int st);
int vx_empty_seen;
void vx_throw(void) {
    __CPROVER_assert(count_state(2) == 0, "C24.allocate: an exception is raised only when nothing was taken from the free list (no object is dropped)");
    __CPROVER_assert(vx_empty_seen, "C24.bounded: bad_alloc only if the free list was empty at some instant during the call");
    __CPROVER_assume(0);
}
enum { FREE = 0, QUEUE = 1, MINE = 2, OTHER = 3 };
typedef struct { int x; } obj_t;
#define NH (VX_CAP + 2)           /* more heap objects than the free list can hold, so that the lazy pool sees a full queue */
obj_t vx_all[VX_CAP + NH];         /* one arena so that the pools' address-range test from_pool() is a same-object comparison */
#define vx_block vx_all            /* the preallocated block (bounded / plain pool): the first VX_CAP objects */
#define vx_heap (vx_all + VX_CAP) /* heap objects outside the block */
int st_block[VX_CAP], st_heap[NH]; /* where each object is */
size_t q_cap = VX_CAP;               /* capacity of the ghost queue */
size_t q_count;                   /* number of objects in the queue (== number of QUEUE states) */
int vx_others_budget = 3;         /* other holders act at most this many times per call (closes the retry loops; they are memoryless) */
int vx_others_off; int vx_kind;
int ev_push, ev_pop, ev_new, ev_free;
void* last_pop; void* last_new; void* last_free; void* last_push_ok;

static int* state_of(void* p) {
    for (unsigned i = 0; i < VX_CAP; ++i) if (p == (void*)&vx_block[i]) return &st_block[i];
    for (unsigned i = 0; i < NH; ++i) if (p == (void*)&vx_heap[i]) return &st_heap[i];
    return 0;
}
/* interference: other holders allocate / deallocate their own objects */
static void others(void) {
    if (vx_others_off || vx_others_budget <= 0) return;
    vx_others_budget--;
    for (unsigned i = 0; i < VX_CAP; ++i) {
        int c = nondet_int() & 3;
        if (c == 1 && st_block[i] == QUEUE) { st_block[i] = OTHER; q_count--; }
        else if (c == 2 && st_block[i] == OTHER && q_count < VX_CAP) { st_block[i] = QUEUE; q_count++; }
    }
    for (unsigned i = 0; i < NH; ++i) {
        int c = nondet_int() & 3;
        if (c == 1 && st_heap[i] == QUEUE) { st_heap[i] = OTHER; q_count--; }
        else if (c == 2 && vx_kind == 1 && st_heap[i] == OTHER && q_count < VX_CAP) { st_heap[i] = QUEUE; q_count++; }   /* only the lazy pool puts heap objects into its free list */
        else if (c == 3 && st_heap[i] == OTHER) st_heap[i] = FREE;          /* freed to the heap by its holder (lazy pool, queue full) */
        else if (c == 3 && st_heap[i] == FREE) st_heap[i] = OTHER;          /* handed out by the heap to another holder */
    }
}
/* ---- queue contract */
int vxq_push(void* p) {
    others(); ev_push++;
    int* s = state_of(p);
    __CPROVER_assert(s != 0 && *s == MINE, "C24.push: only an object the caller holds is put into the free list (never one that is already there, freed, or someone else's)");
    if (q_count >= q_cap) return 0;                         /* fails only if capacity items are present at this instant */
    if (s) *s = QUEUE; q_count++; last_push_ok = p;
    return 1;
}
void* vxq_pop(void) {
    others(); ev_pop++;
    if (q_count == 0) { vx_empty_seen = 1; last_pop = NULL; return NULL; }      /* null only if empty at this instant */
    /* some element of the queue (FIFO order is irrelevant to the pool) */
    unsigned k = (unsigned)nondet_int() % (VX_CAP + NH); void* r = NULL;
    for (unsigned i = 0; i < VX_CAP; ++i) if (k == i && st_block[i] == QUEUE) { st_block[i] = MINE; r = &vx_block[i]; }
    for (unsigned i = 0; i < NH; ++i) if (k == VX_CAP + i && st_heap[i] == QUEUE) { st_heap[i] = MINE; r = &vx_heap[i]; }
    __CPROVER_assume(r != NULL);
    q_count--; last_pop = r; return r;
}
size_t vxq_size(void) { others(); if (q_count == 0) vx_empty_seen = 1; return q_count; }
/* contract of the queue constructor: a dynamic buffer of the requested size rounded up to a power of two (0: the static buffer) */
void vxq_construct(size_t n) { q_cap = n == 0 ? VX_CAP : n <= 1 ? 2 : n <= 2 ? 2 : n <= 4 ? 4 : 8; }
size_t vxq_capacity(void) { return q_cap; }
int vxq_empty(void) { others(); return q_count == 0; }
void vxq_clear(void) {}
/* ---- ghost heap */
void* vx_heap_new(void) {
    ev_new++;
    unsigned k = (unsigned)nondet_int() % NH; __CPROVER_assume(st_heap[k] == FREE);      /* the heap hands out memory nobody holds */
    st_heap[k] = MINE; last_new = &vx_heap[k]; return last_new;
}
void vx_heap_free(void* p) {
    ev_free++; last_free = p;
    int* s = state_of(p);
    __CPROVER_assert(s != 0 && *s == MINE, "C24.free: only an object the caller holds is given back to the heap (never one that sits in the free list or belongs to another holder)");
    if (s) *s = FREE;
}
size_t block_n;
void* vx_block_alloc(size_t n) { __CPROVER_assert(n == q_cap, "C24.preallocate: the block has capacity() objects (every pointer put into the free list must lie inside it)"); block_n = n; return vx_block; }
void vx_obj_constructed(void* p) {}
/* the destructor of a pooled object runs while the caller still holds it: once the object is back in the free list (or with another holder) it is no longer the caller's to touch */
void vx_obj_destroyed(void* p) { int* s = state_of(p); __CPROVER_assert(s != 0 && *s == MINE, "C24.deallocate: the object is destroyed before it is made available again, not after (a second holder may already own it)"); }

void w_set_block(void*, size_t);
void* w_vqp_allocate(void); void w_vqp_deallocate(void*); void w_vqp_construct(size_t); void* w_vqp_first(void); void* w_vqp_last(void);
void* w_lazy_allocate(void); void w_lazy_deallocate(void*);
void* w_bounded_allocate(void); void w_bounded_deallocate(void*); void w_bounded_construct(size_t); void* w_bounded_first(void); void* w_bounded_last(void);
void* w_pa_allocate(void); void w_pa_deallocate(void*);

/* arbitrary consistent pool state; block objects are never FREE once preallocated; pool kinds: 0 plain (block + heap), 1 lazy (heap only), 2 bounded (block only) */
static void setup(int kind) {
    q_count = 0; vx_kind = kind;
    for (unsigned i = 0; i < VX_CAP; ++i) { int s = nondet_int() & 3; if (kind == 1) s = FREE; else __CPROVER_assume(s == QUEUE || s == OTHER); st_block[i] = s; if (s == QUEUE) q_count++; }
    for (unsigned i = 0; i < NH; ++i) { int s = nondet_int() & 3; __CPROVER_assume(s != MINE); if (kind == 2) s = FREE; if (kind == 0) __CPROVER_assume(s == FREE || s == OTHER); st_heap[i] = s; if (s == QUEUE) q_count++; }
    __CPROVER_assume(q_count <= VX_CAP);
    w_set_block(vx_block, VX_CAP);
}
static int count_state(int st) { int n = 0; for (unsigned i = 0; i < VX_CAP; ++i) n += st_block[i] == st; for (unsigned i = 0; i < NH; ++i) n += st_heap[i] == st; return n; }
static void check_allocate(void* r, int kind) {
    int* s = state_of(r);
    __CPROVER_assert(r != NULL && s != 0 && *s == MINE, "C24.allocate: returns an object that now belongs to the caller alone (it came out of the free list or fresh from the heap)");
    __CPROVER_assert(count_state(MINE) == 1, "C24.allocate: exactly one object changed hands (nothing taken from the free list is dropped)");
    __CPROVER_assert((size_t)count_state(QUEUE) == q_count, "C24.allocate: free-list bookkeeping consistent");
    __CPROVER_assert(ev_free == 0 && ev_push == 0, "C24.allocate: allocate neither frees nor re-pools anything");
}
static void* pick_mine(int from_block, int from_heap) {
    void* p = NULL; unsigned k = (unsigned)nondet_int() % (VX_CAP + NH);
    if (k < VX_CAP) { __CPROVER_assume(from_block && st_block[k] == OTHER); st_block[k] = MINE; p = &vx_block[k]; }
    else { __CPROVER_assume(from_heap && st_heap[k - VX_CAP] == OTHER); st_heap[k - VX_CAP] = MINE; p = &vx_heap[k - VX_CAP]; }
    return p;
}
static void check_deallocate(void* p, int may_free) {
    int* s = state_of(p);
    __CPROVER_assert(*s == QUEUE || *s == OTHER || (may_free && (*s == FREE)), "C24.deallocate: the object became available again: it is in the free list (possibly already taken by another holder) or was given back to the heap");
    __CPROVER_assert(count_state(MINE) == 0, "C24.deallocate: the caller holds nothing afterwards");
    __CPROVER_assert(ev_free + (last_push_ok == p) == 1 || *s == OTHER, "C24.deallocate: the object went to exactly one place (free list XOR heap)");
    __CPROVER_assert((size_t)count_state(QUEUE) == q_count, "C24.deallocate: free-list bookkeeping consistent");
}
void h_vqp_allocate(void)   { setup(0); void* r = w_vqp_allocate(); check_allocate(r, 0); VX_REACH_GUARD(); }
void h_lazy_allocate(void)  { setup(1); void* r = w_lazy_allocate(); check_allocate(r, 1); VX_REACH_GUARD(); }
void h_bounded_allocate(void) {
    setup(2); void* r = w_bounded_allocate(); check_allocate(r, 2);
    __CPROVER_assert(ev_new == 0, "C24.bounded: the bounded pool never goes to the heap");
    VX_REACH_GUARD();
}
void h_vqp_deallocate(void)  { setup(0); void* p = pick_mine(1, 1); w_vqp_deallocate(p); check_deallocate(p, p >= (void*)vx_heap); if (p < (void*)vx_heap) __CPROVER_assert(ev_free == 0, "C24.deallocate: pool objects are never given to the heap"); VX_REACH_GUARD(); }
void h_lazy_deallocate(void) { setup(1); void* p = pick_mine(0, 1); w_lazy_deallocate(p); check_deallocate(p, 1); VX_REACH_GUARD(); }
void h_bounded_deallocate(void) { setup(2); void* p = pick_mine(1, 0); w_bounded_deallocate(p); check_deallocate(p, 0); __CPROVER_assert(ev_free == 0, "C24.deallocate: the bounded pool never frees to the heap"); VX_REACH_GUARD(); }
static void check_prealloc(void* first, void* last) {
    __CPROVER_assert(block_n == q_cap && first == (void*)vx_block && last == (void*)(vx_block + block_n), "C24.preallocate: first/last delimit exactly the allocated block");
    for (unsigned i = 0; i < VX_CAP; ++i) __CPROVER_assert(st_block[i] == (i < q_cap ? QUEUE : MINE), "C24.preallocate: every object of the block is in the free list exactly once, nothing outside the block is");
    __CPROVER_assert(q_count == q_cap, "C24.preallocate: the free list holds capacity() objects");
}
static size_t requested(void) { size_t n = (size_t)(unsigned)nondet_int(); __CPROVER_assume(n <= VX_CAP); return n; }   /* any requested size: 0 (static buffer), powers of two and not */
void h_vqp_preallocate(void) { vx_others_off = 1; q_count = 0; for (unsigned i = 0; i < VX_CAP; ++i) st_block[i] = MINE; w_vqp_construct(requested()); check_prealloc(w_vqp_first(), w_vqp_last()); VX_REACH_GUARD(); }
void h_bounded_preallocate(void) { vx_others_off = 1; q_count = 0; for (unsigned i = 0; i < VX_CAP; ++i) st_block[i] = MINE; w_bounded_construct(requested()); check_prealloc(w_bounded_first(), w_bounded_last()); VX_REACH_GUARD(); }
void h_pool_allocator(void) {
    setup(1);
    void* r = w_pa_allocate();
    int* s = state_of(r);
    __CPROVER_assert(r != NULL && s != 0 && *s == MINE && count_state(MINE) == 1, "C24.pool_allocator allocate: forwards to the pool: one object, owned by the caller");
    w_pa_deallocate(r);
    __CPROVER_assert(count_state(MINE) == 0 && (*s == QUEUE || *s == OTHER || *s == FREE), "C24.pool_allocator deallocate: forwards to the pool: the object became available again");
    VX_REACH_GUARD();
}
