# per-property evidence level and explanation (see DESIGN.md section 6)
LEVELS = {
    'C01': 'other',
    'C03': 'other',
    'C07': 'other',
    'C10': 'other',
    'C12': 'other',
    'C24': 'other',
    'C22': 'other',
    'C25': 'proof',
    'C26': 'proof',
    'C27': 'proof',
    'C28': 'proof',
}
EXPLAIN = {
    'C10': 'BOUNDED stand-in, conditional on the flat-combining kernel (C23 assumed): the container code a combiner pass runs — the real fc_process/collide/collide_move and fc_apply of FCDeque — over every batch of <= 3 symbolic requests and every initial deque of <= 3 elements: records complete only in (push, pop) pairs with the pushed value, opposite-end pairs only on an empty deque, the elimination pass never touches the deque, and the whole batch equals a sequential execution on a reference deque (pairs first, then list order).',
    'C07': 'BOUNDED stand-in, per-call obligations under interference (not a linearizability proof): enqueue_with / dequeue_with / front / empty of the real Vyukov queue run against a state that contains in-flight enqueues and dequeues of other threads in every cell, with positions fully symbolic; the calling thread must claim only free (resp. published) cells, publish/release exactly the cell it claimed, and report full/empty only if the queue was full/empty at an instant during the call; the representation invariant is preserved.',
    'C24': 'Modular check over the queue CONTRACT (C07 assumed): allocate/deallocate/preallocate of the three real pool classes and pool_allocator run against a ghost free list and ghost heap with other holders interleaving; every object is always in exactly one place (free list, heap, caller, other holder), allocate hands out an object nobody else holds, deallocate makes it available again exactly once. Push-retry loops bounded.',
    'C12': 'BOUNDED stand-in with fully symbolic counters: each producer/consumer function of the real WeakRingBuffer (typed and <void>) is checked as one side of the SPSC pair while the environment lets the other side progress before every atomic access: success exactly when space/elements suffice (against a counter value read during the call), elements stored/returned in order at the right positions, no unread cell or byte ever overwritten, records contiguous with exact size headers, tail markers skipped exactly once.',
    'C01': 'BOUNDED stand-in (not a proof): ghost-state obligations on the real scan code (both strategies, the odd-address fallback, retire, detach) over harness-built worlds of a few thread records, hazard slots and retired pointers, exhaustive inside the bound; a witness hazard slot holds the protected pointer for the whole pass while every other slot returns arbitrary values (all interleavings of other threads with the pass). The disposer stub asserts it is never called on the protected pointer.',
    'C03': 'BOUNDED stand-in (not a proof): a tracked retired object is followed through scan, retire, help_scan, detach and the destructor of the real code: disposed at most once, exactly once when unprotected / at destruction, never invented, conserved by adoption of abandoned records. HP only; DHP is covered by unit dhp_scan when present.',
    'C22': 'Rely/guarantee obligations with ghost ownership on the real lock code: every write of the calling thread is checked against the guarantee (takes only a free lock, releases only its own, reference counts match), the environment step applies any interference the rely allows before every atomic access; postconditions and the lock invariant are asserted after each call. Spin loops are closed by a fairness budget (bounded), loop-free functions are unbounded.',
    'C28': 'metrics::make is enforced against the normalised-layout contract for all head/array values and hash sizes 1..64 bytes; consecutive cuts/reset/eos of the real splitters are enforced; exact consumption, same-path and the divergence induction step are lemmas over the metrics and cut contracts.',
    'C27': 'regular_hash/dummy_hash (three reversal algorithms), bucket_no and parent_bucket of the three SplitListSet variants are enforced against contracts for all 64-bit hashes and all table sizes 2^0..2^63; the ordering statements of the property are lemmas discharged over those contracts only.',
    'C26': 'inc/dec of the real bit_reverse_counter<size_t> carry contracts over the state predicate wf(c,r,h) for ALL 2^64 counter states (loops closed by width-complete unwinding); the undo sentence is additionally enforced on two- and three-call sequences of the real code; level/injectivity/prefix lemmas are discharged over the predicate alone. The literal every-n prefix statement is a known finding (false for n != 2^k-1 by design).',
    'C25': 'Function contracts (reference definitions as postconditions) enforced on every function of the bit helpers with all inputs symbolic at full width; callers verified against callee contracts; loops closed by word-width unwinding with unwinding assertions (complete).',
}
