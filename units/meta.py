# per-property evidence level and explanation (see DESIGN.md section 6)
LEVELS = {
    'C25': 'proof',
    'C26': 'proof',
    'C27': 'proof',
    'C28': 'proof',
}
EXPLAIN = {
    'C28': 'metrics::make is enforced against the normalised-layout contract for all head/array values and hash sizes 1..64 bytes; consecutive cuts/reset/eos of the real splitters are enforced; exact consumption, same-path and the divergence induction step are lemmas over the metrics and cut contracts.',
    'C27': 'regular_hash/dummy_hash (three reversal algorithms), bucket_no and parent_bucket of the three SplitListSet variants are enforced against contracts for all 64-bit hashes and all table sizes 2^0..2^63; the ordering statements of the property are lemmas discharged over those contracts only.',
    'C26': 'inc/dec of the real bit_reverse_counter<size_t> carry contracts over the state predicate wf(c,r,h) for ALL 2^64 counter states (loops closed by width-complete unwinding); the undo sentence is additionally enforced on two- and three-call sequences of the real code; level/injectivity/prefix lemmas are discharged over the predicate alone. The literal every-n prefix statement is a known finding (false for n != 2^k-1 by design).',
    'C25': 'Function contracts (reference definitions as postconditions) enforced on every function of the bit helpers with all inputs symbolic at full width; callers verified against callee contracts; loops closed by word-width unwinding with unwinding assertions (complete).',
}
