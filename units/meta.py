# per-property evidence level and explanation (see DESIGN.md section 6)
LEVELS = {
    'C25': 'proof',
}
EXPLAIN = {
    'C25': 'Function contracts (reference definitions as postconditions) enforced on every function of the bit helpers with all inputs symbolic at full width; callers verified against callee contracts; loops closed by word-width unwinding with unwinding assertions (complete).',
}
