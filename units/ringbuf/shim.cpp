// unit ringbuf — C12. Real text: member functions of WeakRingBuffer<T,Traits> and WeakRingBuffer<void,Traits> (fragments of
// cds/container/weak_ringbuffer.h) and the buffer index arithmetic (fragment of cds/opt/buffer.h).
// Shell: plain structs supplying exactly the members the fragments refer to (front_, back_, pfront_, cback_, buffer_),
// tied to the real declarations by declaration rules; traits -> concrete types (value_type int, no-op value_cleaner).
#include <cds/details/defs.h>
extern "C" void vx_env(const void* addr);
#define VX_ATOMIC_ENV(a) vx_env((const void*)(a))
#include <cds/algo/atomic.h>
#include <utility>
namespace std { template <typename A, typename B> struct pair { A first; B second; pair( A a, B b ) : first( a ), second( b ) {} }; }
#ifndef VX_CAP
#define VX_CAP 8
#endif
#ifndef VX_VCAP
#define VX_VCAP 32
#endif
template <typename T, int N> struct vx_buf {
    T m[N]; size_t cap_; bool c_bExp2;
    size_t capacity() const { return cap_; }
    T& operator[]( size_t i ) { return m[i]; }
    T* buffer() { return m; }
#include <buf_mod.inc>
};
struct shell_ring {
    typedef int value_type; typedef uint64_t counter_type;
    struct value_cleaner { void operator()( int& ) const {} };
    atomics::atomic<counter_type> front_; atomics::atomic<counter_type> back_; counter_type pfront_; counter_type cback_;
    vx_buf<int, VX_CAP> buffer_;
#include <t_push.inc>
#include <t_pop.inc>
#include <t_enqueue_with.inc>
#include <t_dequeue_with.inc>
#include <t_front.inc>
#include <t_pop_front.inc>
#include <t_empty.inc>
#include <t_full.inc>
#include <t_size.inc>
#include <t_capacity.inc>
};
struct shell_vring {
    typedef uint64_t counter_type;
    atomics::atomic<counter_type> front_; atomics::atomic<counter_type> back_; counter_type pfront_; counter_type cback_;
    vx_buf<uint8_t, VX_VCAP> buffer_;
#include <v_back.inc>
#include <v_push_back.inc>
#include <v_front.inc>
#include <v_pop_front.inc>
#include <v_empty.inc>
#include <v_size.inc>
#include <v_capacity.inc>
#include <v_calc_real_size.inc>
#include <v_is_tail.inc>
#include <v_make_tail.inc>
#include <v_untail.inc>
};
static shell_ring g_r; static shell_vring g_v;
struct vx_copy_in  { void operator()( int& dest, int const& src ) const { dest = src; } };
struct vx_copy_out { void operator()( int& dest, int& src ) const { dest = src; } };
struct vx_enq { int v; void operator()( int& dest ) { dest = v; } };
struct vx_deq { int* out; void operator()( int& src ) { *out = src; } };

extern "C" {
uint64_t* w_t_front(void) { return &g_r.front_.v_; }  uint64_t* w_t_back(void) { return &g_r.back_.v_; }
uint64_t* w_t_pfront(void) { return &g_r.pfront_; }   uint64_t* w_t_cback(void) { return &g_r.cback_; }
int* w_t_cells(void) { return g_r.buffer_.m; }        size_t* w_t_cap(void) { return &g_r.buffer_.cap_; }   bool* w_t_exp2(void) { return &g_r.buffer_.c_bExp2; }
bool w_t_push(int* arr, size_t count) { vx_copy_in cp; return g_r.push<int, vx_copy_in>(arr, count, cp); }
bool w_t_pop(int* arr, size_t count)  { vx_copy_out cp; return g_r.pop<int, vx_copy_out>(arr, count, cp); }
bool w_t_enqueue(int v)  { vx_enq f; f.v = v; return g_r.enqueue_with<vx_enq>(f); }
bool w_t_dequeue(int* o) { vx_deq f; f.out = o; return g_r.dequeue_with<vx_deq>(f); }
int* w_t_frontp(void) { return g_r.front(); }
bool w_t_pop_front(void) { return g_r.pop_front(); }
bool w_t_empty(void) { return g_r.empty(); }  bool w_t_full(void) { return g_r.full(); }  size_t w_t_size(void) { return g_r.size(); }

uint64_t* w_v_front(void) { return &g_v.front_.v_; }  uint64_t* w_v_back(void) { return &g_v.back_.v_; }
uint64_t* w_v_pfront(void) { return &g_v.pfront_; }   uint64_t* w_v_cback(void) { return &g_v.cback_; }
uint8_t* w_v_bytes(void) { return g_v.buffer_.m; }    size_t* w_v_cap(void) { return &g_v.buffer_.cap_; }   bool* w_v_exp2(void) { return &g_v.buffer_.c_bExp2; }
void* w_v_backp(size_t size) { return g_v.back(size); }
void w_v_push_back(void) { g_v.push_back(); }
void* w_v_frontp(size_t* size) { std::pair<void*, size_t> p = g_v.front(); *size = p.second; return p.first; }
bool w_v_pop_front(void) { return g_v.pop_front(); }
size_t w_v_calc_real_size(size_t s) { return shell_vring::calc_real_size(s); }
bool w_v_is_tail(size_t s) { return shell_vring::is_tail(s); }
size_t w_v_make_tail(size_t s) { return shell_vring::make_tail(s); }
size_t w_v_untail(size_t s) { return shell_vring::untail(s); }
}
