/* unit ringbuf — property C12. Single producer / single consumer: the function under check runs as one side, the
   environment step (before each of its atomic accesses) lets the OTHER side make any progress it can:
   producer side running  -> the consumer may have advanced front_ up to back_ (and cleaned consumed cells);
   consumer side running  -> the producer may have advanced back_ up to front_+capacity (writing free cells first).
   Counters are fully symbolic 64-bit values (wrap-around of the counters is inside the check). */
#include <vx_c.h>
#ifndef VX_CAP
#define VX_CAP 8
#endif
#ifndef VX_CNT
#define VX_CNT 3
#endif
static uint64_t nondet_u64(void) { uint64_t v; return v; }
static int nondet_int(void) { int v; return v; }
int vx_side;      /* 1: typed producer running, 2: typed consumer running, 3: void producer, 4: void consumer, 0: no interference */
uint64_t *F, *B, *PF, *CB; size_t* CAP; vx_bool* EXP2;
int* CELLS; uint8_t* BYTES;
uint64_t vx_front_max;   /* ghost: the largest value front_ had during the call */
uint64_t vx_back_seen_max;

uint64_t* w_t_front(void); uint64_t* w_t_back(void); uint64_t* w_t_pfront(void); uint64_t* w_t_cback(void); int* w_t_cells(void); size_t* w_t_cap(void); vx_bool* w_t_exp2(void);
vx_bool w_t_push(int*, size_t); vx_bool w_t_pop(int*, size_t); vx_bool w_t_enqueue(int); vx_bool w_t_dequeue(int*); int* w_t_frontp(void); vx_bool w_t_pop_front(void);
vx_bool w_t_empty(void); vx_bool w_t_full(void); size_t w_t_size(void);

static size_t idx_of(uint64_t pos);
void vx_env(const void* addr) {
    if (vx_side == 1 || vx_side == 3) {           /* consumer progress: front_ moves towards back_ */
        uint64_t d = nondet_u64(); __CPROVER_assume(d <= *B - *F);
        if (vx_side == 3) __CPROVER_assume((d & 7) == 0);
        *F += d;
    } else if (vx_side == 2) {                    /* producer progress: writes free cells, then publishes back_ */
        uint64_t d = nondet_u64(); __CPROVER_assume(d <= *CAP - (*B - *F));
        for (unsigned i = 0; i < VX_CAP; ++i) if (i < d) { uint64_t pos = *B + i; CELLS[idx_of(pos)] = nondet_int(); }
        *B += d;
    }
}

/* symbolic typed ring state satisfying the representation invariant */
static void t_setup(void) {
    F = w_t_front(); B = w_t_back(); PF = w_t_pfront(); CB = w_t_cback(); CELLS = w_t_cells(); CAP = w_t_cap(); EXP2 = w_t_exp2();
#ifdef VX_MOD_CAP
    /* modulo (non power-of-two) buffer: concrete capacity, counters bounded (pos % capacity on fully symbolic 64-bit words is
       out of the SAT back end's reach; besides, pos % capacity is only continuous while the counters do not wrap at 2^64 —
       they start at 0, so that needs 2^64 pushes) */
    size_t cap = VX_MOD_CAP; vx_bool e2 = 0;
    uint64_t b = nondet_u64(), used = nondet_u64(); __CPROVER_assume(used <= cap && b >= 2 * (uint64_t)VX_CAP && b < 4096);
#else
    /* power-of-two buffer: capacity symbolic in {2,4,8}, counters fully symbolic (across the 2^64 wrap) */
    size_t cap; __CPROVER_assume(cap >= 2 && cap <= VX_CAP && (cap & (cap - 1)) == 0); vx_bool e2 = 1;
    uint64_t b = nondet_u64(), used = nondet_u64(); __CPROVER_assume(used <= cap);
#endif
    *CAP = cap; *EXP2 = e2;
    *B = b; *F = b - used;                                           /* front_ <= back_ <= front_ + capacity (modular) */
    uint64_t lagp = nondet_u64(); __CPROVER_assume(lagp <= cap - used);   /* producer's cached front: pfront_ <= front_, back_ - pfront_ <= capacity */
    *PF = *F - lagp;
    uint64_t lagc = nondet_u64(); __CPROVER_assume(lagc <= used);         /* consumer's cached back: front_ <= cback_ <= back_ */
    *CB = *B - lagc;
    for (unsigned i = 0; i < VX_CAP; ++i) CELLS[i] = nondet_int();
}
#ifdef VX_MOD_CAP
static size_t idx_of(uint64_t pos) { return (size_t)(pos % VX_MOD_CAP); }
#else
static size_t idx_of(uint64_t pos) { return (size_t)(pos & (*CAP - 1)); }
#endif

/* ---------------- producer: push(arr, count, copy) */
void h_t_push(void) {
    t_setup(); vx_side = 1;
    int arr[VX_CNT]; size_t count; __CPROVER_assume(count <= VX_CNT && count < *CAP);
    for (unsigned i = 0; i < VX_CNT; ++i) arr[i] = nondet_int();
    uint64_t b0 = *B, w; int snap[VX_CAP];
    for (unsigned i = 0; i < VX_CAP; ++i) snap[i] = CELLS[i];
    vx_bool r = w_t_push(arr, count);
    uint64_t ffin = *F;                                            /* front_ at exit (the consumer only moves forward) */
    if (r) {
        __CPROVER_assert(*B == b0 + count, "C12.push: on success back advances by exactly count");
        for (unsigned i = 0; i < VX_CNT; ++i) if (i < count) __CPROVER_assert(CELLS[idx_of(b0 + i)] == arr[i], "C12.push: the elements are stored at positions back..back+count-1 in order");
        __CPROVER_assume(w - ffin < b0 - ffin);                    /* witness position in the unread region [front_, back0) */
        __CPROVER_assert(CELLS[idx_of(w)] == snap[idx_of(w)], "C12.push: no cell of the unread region is overwritten");
        __CPROVER_assert(b0 + count - ffin <= *CAP, "C12.push: never more than capacity elements in flight");
    } else {
        __CPROVER_assert(*B == b0, "C12.push: a failed push does not move back");
        __CPROVER_assert(*CAP - (b0 - *PF) < count, "C12.push: fails only if the free space (against a front value read during the call) is smaller than the request");
        for (unsigned i = 0; i < VX_CAP; ++i) __CPROVER_assert(CELLS[i] == snap[i], "C12.push: a failed push writes nothing");
    }
    __CPROVER_assert(*PF - (b0 - *CAP) <= *CAP && ffin - *PF <= *CAP, "C12.push: cached front stays between back-capacity and front");
    VX_REACH_GUARD();
}
void h_t_enqueue(void) {
    t_setup(); vx_side = 1;
    int v = nondet_int(); uint64_t b0 = *B, w; int snap[VX_CAP];
    for (unsigned i = 0; i < VX_CAP; ++i) snap[i] = CELLS[i];
    vx_bool r = w_t_enqueue(v);
    uint64_t ffin = *F;
    if (r) {
        __CPROVER_assert(*B == b0 + 1 && CELLS[idx_of(b0)] == v, "C12.enqueue_with: element stored at position back, back advances by one");
        __CPROVER_assume(w - ffin < b0 - ffin);
        __CPROVER_assert(CELLS[idx_of(w)] == snap[idx_of(w)], "C12.enqueue_with: no cell of the unread region is overwritten");
    } else {
        __CPROVER_assert(*B == b0 && *CAP - (b0 - *PF) < 1, "C12.enqueue_with: fails only if the ring is full against a front value read during the call");
    }
    VX_REACH_GUARD();
}
/* ---------------- consumer: pop(arr, count, copy) */
void h_t_pop(void) {
    t_setup(); vx_side = 2;
    int arr[VX_CNT]; size_t count; __CPROVER_assume(count <= VX_CNT && count < *CAP);
    uint64_t f0 = *F;
    vx_bool r = w_t_pop(arr, count);
    if (r) {
        __CPROVER_assert(*F == f0 + count, "C12.pop: on success front advances by exactly count");
        for (unsigned i = 0; i < VX_CNT; ++i) if (i < count) __CPROVER_assert(arr[i] == CELLS[idx_of(f0 + i)], "C12.pop: returns the elements at positions front..front+count-1 in order");
        __CPROVER_assert(*B - f0 >= count, "C12.pop: only published elements are consumed");
    } else {
        __CPROVER_assert(*F == f0 && *CB - f0 < count, "C12.pop: fails only if fewer elements than requested are present (against a back value read during the call)");
    }
    __CPROVER_assert(*CB - f0 <= *B - f0, "C12.pop: cached back never runs ahead of back");
    VX_REACH_GUARD();
}
void h_t_dequeue(void) {
    t_setup(); vx_side = 2;
    int out = 0; uint64_t f0 = *F;
    vx_bool r = w_t_dequeue(&out);
    if (r) __CPROVER_assert(*F == f0 + 1 && out == CELLS[idx_of(f0)] && *B - f0 >= 1, "C12.dequeue_with: passes the oldest element, front advances by one");
    else __CPROVER_assert(*F == f0 && *CB - f0 < 1, "C12.dequeue_with: fails only if the ring is empty against a back value read during the call");
    VX_REACH_GUARD();
}
void h_t_front_pop_front(void) {
    t_setup(); vx_side = 2;
    uint64_t f0 = *F;
    int* p = w_t_frontp();
    if (p) __CPROVER_assert(p == &CELLS[idx_of(f0)] && *B - f0 >= 1 && *F == f0, "C12.front: returns the cell of the oldest element without consuming it");
    else __CPROVER_assert(*CB - f0 < 1 && *F == f0, "C12.front: null only if the ring is empty against a back value read during the call");
    vx_bool r = w_t_pop_front();
    if (r) __CPROVER_assert(*F == f0 + 1 && *B - f0 >= 1, "C12.pop_front: removes exactly the oldest element");
    else __CPROVER_assert(*F == f0 && *CB - f0 < 1, "C12.pop_front: fails only if empty");
    if (p) __CPROVER_assert(r, "C12.pop_front: succeeds after a successful front()");
    VX_REACH_GUARD();
}
void h_t_observers(void) {
    t_setup(); vx_side = 0;
    uint64_t used = *B - *F;
    __CPROVER_assert(w_t_size() == used && w_t_empty() == (used == 0) && w_t_full() == (used >= *CAP), "C12.size/empty/full agree with the counters");
    VX_REACH_GUARD();
}

/* =================== WeakRingBuffer<void>: variable-size records =================== */
#ifndef VX_VCAP
#define VX_VCAP 32
#endif
#ifndef VX_SZ
#define VX_SZ 12            /* record payload sizes 1..VX_SZ bytes */
#endif
uint64_t* w_v_front(void); uint64_t* w_v_back(void); uint64_t* w_v_pfront(void); uint64_t* w_v_cback(void); uint8_t* w_v_bytes(void); size_t* w_v_cap(void); vx_bool* w_v_exp2(void);
void* w_v_backp(size_t); void w_v_push_back(void); void* w_v_frontp(size_t*); vx_bool w_v_pop_front(void);
size_t w_v_calc_real_size(size_t); vx_bool w_v_is_tail(size_t); size_t w_v_make_tail(size_t); size_t w_v_untail(size_t);
#define REAL(s) ((((s) + 7) & ~(size_t)7) + 8)
#define TAILBIT ((size_t)1 << 63)
#ifdef VX_MOD_VCAP
#define VCAPV VX_MOD_VCAP
static size_t vidx(uint64_t pos) { return (size_t)(pos % VX_MOD_VCAP); }
#else
#define VCAPV VX_VCAP
static size_t vidx(uint64_t pos) { return (size_t)(pos & (VX_VCAP - 1)); }
#endif
static size_t rd_hdr(size_t idx) { return *(size_t*)(BYTES + idx); }

static void v_setup(void) {
    F = w_v_front(); B = w_v_back(); PF = w_v_pfront(); CB = w_v_cback(); BYTES = w_v_bytes(); CAP = w_v_cap(); EXP2 = w_v_exp2();
    size_t cap = VCAPV;
#ifdef VX_MOD_VCAP
    vx_bool e2 = 0; uint64_t b = nondet_u64(); __CPROVER_assume(b >= 2 * (uint64_t)VCAPV && b < 4096);
#else
    vx_bool e2 = 1; uint64_t b = nondet_u64();
#endif
    *CAP = cap; *EXP2 = e2;
    uint64_t used = nondet_u64(); __CPROVER_assume(used <= cap && (used & 7) == 0 && (b & 7) == 0);    /* all records are multiples of 8 bytes */
    *B = b; *F = b - used;
    uint64_t lagp = nondet_u64(); __CPROVER_assume(lagp <= cap - used && (lagp & 7) == 0); *PF = *F - lagp;
    uint64_t lagc = nondet_u64(); __CPROVER_assume(lagc <= used && (lagc & 7) == 0); *CB = *B - lagc;
    for (unsigned i = 0; i < VCAPV; ++i) { uint8_t v; BYTES[i] = v; }
}
/* ---- helpers (loop-free, all 64-bit sizes) */
void h_v_sizes(void) {
    size_t s; __CPROVER_assume(s <= ((size_t)1 << 62));
    size_t r = w_v_calc_real_size(s);
    __CPROVER_assert((r & 7) == 0 && r >= s + 8 && r < s + 16, "C12.calc_real_size: payload rounded up to 8 bytes plus the 8-byte header");
    size_t t = w_v_make_tail(s);
    __CPROVER_assert(w_v_is_tail(t) && !w_v_is_tail(s) && w_v_untail(t) == s && w_v_untail(s) == s, "C12.tail markers: make_tail/is_tail/untail are consistent");
    VX_REACH_GUARD();
}
/* ---- producer: back(size) [+ push_back()] */
void h_v_back(void) {
    v_setup(); vx_side = 3;
    size_t size; __CPROVER_assume(size >= 1 && size <= VX_SZ);
    size_t real = REAL(size);
    uint64_t b0 = *B; uint8_t snap[VCAPV]; uint64_t w;
    for (unsigned i = 0; i < VCAPV; ++i) snap[i] = BYTES[i];
    size_t tail = VCAPV - vidx(b0); int need_tail = tail < real;
    uint8_t* p = w_v_backp(size);
    uint64_t ffin = *F;
    if (p) {
        uint64_t pos = need_tail ? b0 + tail : b0;
        __CPROVER_assert(p == BYTES + vidx(pos) + 8, "C12.back: returns the payload address right after the header at the reserved position");
        __CPROVER_assert(rd_hdr(vidx(pos)) == size, "C12.back: the header word holds the exact record size");
        __CPROVER_assert(vidx(pos) + real <= VCAPV, "C12.back: the record (header + payload) is contiguous, it does not run past the end of the buffer");
        __CPROVER_assert(pos + real - ffin <= VCAPV, "C12.back: the reserved record lies in free space (does not reach into unread data)");
        __CPROVER_assume(w - ffin < b0 - ffin);
        __CPROVER_assert(BYTES[vidx(w)] == snap[vidx(w)], "C12.back: no byte of the unread region is overwritten");
        if (need_tail) __CPROVER_assert(*B == b0 + tail && rd_hdr(vidx(b0)) == ((tail - 8) | TAILBIT), "C12.back: a skipped tail is marked with its length and published");
        else __CPROVER_assert(*B == b0, "C12.back: back is not published before push_back()");
        w_v_push_back();
        __CPROVER_assert(*B == pos + real, "C12.push_back: publishes exactly the reserved record");
    } else {
        __CPROVER_assert(*B == b0, "C12.back: a failed reservation publishes nothing");
        __CPROVER_assert(VCAPV - (b0 - *PF) < real + (need_tail ? tail : 0), "C12.back: fails only if the free space (after skipping the tail if the record does not fit before the end) is smaller than the request");
        __CPROVER_assume(w - ffin < b0 - ffin);
        __CPROVER_assert(BYTES[vidx(w)] == snap[vidx(w)], "C12.back: a failed reservation leaves unread data untouched");
    }
    VX_REACH_GUARD();
}
/* ---- consumer: front() / pop_front() on a well-formed unread region */
uint64_t vx_rec2;      /* position of the record that follows a tail marker */
static void v_env_consumer(void) {    /* producer publishes more complete records */
    uint64_t d = nondet_u64(); __CPROVER_assume((d & 7) == 0 && d <= VCAPV - (*B - *F));
    *B += d;
}
void h_v_front(void) {
    v_setup(); vx_side = 0;
    uint64_t f0 = *F, used = *B - f0; size_t size_out = 0;
    /* representation invariant of the unread region as far as front()/pop_front() look at it */
    size_t hdr = rd_hdr(vidx(f0)); int is_tail = (hdr & TAILBIT) != 0; size_t ts = VCAPV - vidx(f0);
    size_t hdr2 = rd_hdr(0);
    if (used >= 8) {
        if (!is_tail) __CPROVER_assume(hdr >= 1 && hdr <= VX_SZ && vidx(f0) + REAL(hdr) <= VCAPV && REAL(hdr) <= used);
        else {
            __CPROVER_assume(hdr == ((ts - 8) | TAILBIT) && ts <= used && vidx(f0) != 0);
            if (used - ts >= 8) __CPROVER_assume(hdr2 >= 1 && hdr2 <= VX_SZ && REAL(hdr2) <= used - ts);
        }
    }
    /* the consumer's cached back is a value back_ really had: a record boundary */
    { uint64_t c = *CB - f0; size_t rec1 = is_tail ? ts : REAL(hdr);
      if (used >= 8) { __CPROVER_assume(c == 0 || c >= rec1); if (is_tail && c > ts) __CPROVER_assume(c - ts >= REAL(hdr2)); } }
    void* p = w_v_frontp(&size_out);
    if (used < 8) __CPROVER_assert(p == NULL && *F == f0, "C12.front<void>: null when nothing is published");
    else if (!is_tail) __CPROVER_assert(p == BYTES + vidx(f0) + 8 && size_out == hdr && *F == f0, "C12.front<void>: returns the oldest record with its exact size, without consuming it");
    else if (used - ts >= 8) __CPROVER_assert(p == BYTES + 8 && size_out == hdr2 && *F == f0 + ts, "C12.front<void>: skips exactly one tail marker and returns the record at the start of the buffer");
    else __CPROVER_assert(p == NULL && *F == f0 + ts, "C12.front<void>: after skipping a tail, null if nothing follows yet");
    if (p) {
        uint64_t f1 = *F; size_t h = rd_hdr(vidx(f1));
        vx_bool r = w_v_pop_front();
        __CPROVER_assert(r && *F == f1 + REAL(h), "C12.pop_front<void>: removes exactly the record front() returned");
    }
    VX_REACH_GUARD();
}
