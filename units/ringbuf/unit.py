# unit ringbuf — property C12 (WeakRingBuffer is an exact SPSC FIFO for fixed and variable-size records)
WRB = 'cds/container/weak_ringbuffer.h'
MM = dict(re=r'memory_model::memory_order_(\w+)', to=r'atomics::memory_order_\1', count='1+', why='typedef-scope lookup inside the class fails in the front end; the stub atomics ignore the order (SC)')


def frag(name, anchor, occurrence=0, rewrites=None, **kw):
    d = dict(kind='fragment', path=WRB, name=name, anchor=anchor, occurrence=occurrence, rewrites=[MM] + (rewrites or []))
    d.update(kw)
    return d


PAIR = [dict(lit='std::make_pair( nullptr, 0u )', to='std::pair<void*, size_t>( nullptr, 0 )', count='1+', why='make_pair + converting pair constructor (unsupported); same value'),
        dict(lit='std::make_pair( reinterpret_cast<void*>( buf + sizeof( size_t )), size )', to='std::pair<void*, size_t>( reinterpret_cast<void*>( buf + sizeof( size_t )), size )', count=1, why='same')]
stage = [
    # typed ring
    frag('t_push', r'template <typename Q, typename CopyFunc>\s*bool push\( Q\* \w+, size_t \w+, CopyFunc \w+ \)'),
    frag('t_pop', r'template <typename Q, typename CopyFunc>\s*bool pop\( Q\* \w+, size_t \w+, CopyFunc \w+ \)'),
    frag('t_enqueue_with', r'template <typename Func>\s*bool enqueue_with\( Func \w+ \)'),
    frag('t_dequeue_with', r'template <typename Func>\s*bool dequeue_with\( Func \w+ \)', rewrites=[
        dict(lit='value_cleaner()( val );', to='{ value_cleaner vx_cleaner; vx_cleaner( val ); }', count=1, why='T()(x) temporary crashes the front end; named object of the same stateless functor')]),
    frag('t_front', r'value_type\* front\(\)'),
    frag('t_pop_front', r'bool pop_front\(\)', occurrence=0, rewrites=[
        dict(lit='value_cleaner()( buffer_[buffer_.mod( front )] );', to='{ value_cleaner vx_cleaner; vx_cleaner( buffer_[buffer_.mod( front )] ); }', count=1, why='T()(x) temporary crashes the front end; named object of the same stateless functor')]),
    frag('t_empty', r'bool empty\(\) const', occurrence=0),
    frag('t_full', r'bool full\(\) const', occurrence=0),
    frag('t_size', r'size_t size\(\) const', occurrence=0),
    frag('t_capacity', r'size_t capacity\(\) const', occurrence=0, rewrites=[]),
    # WeakRingBuffer<void>
    frag('v_back', r'void\* back\( size_t \w+ \)'),
    frag('v_push_back', r'void push_back\(\)'),
    frag('v_front', r'std::pair<void\*, size_t> front\(\)', rewrites=PAIR),
    frag('v_pop_front', r'bool pop_front\(\)', occurrence=1),
    frag('v_empty', r'bool empty\(\) const', occurrence=1),
    frag('v_size', r'size_t size\(\) const', occurrence=1),
    frag('v_capacity', r'size_t capacity\(\) const', occurrence=1, rewrites=[]),
    frag('v_calc_real_size', r'static size_t calc_real_size\( size_t \w+ \)', rewrites=[]),
    frag('v_is_tail', r'static bool is_tail\( size_t \w+ \)', rewrites=[]),
    frag('v_make_tail', r'static size_t make_tail\( size_t \w+ \)', rewrites=[]),
    frag('v_untail', r'static size_t untail\( size_t \w+ \)', rewrites=[]),
    # buffer index arithmetic (cds/opt/buffer.h, initialized_dynamic_buffer::mod)
    dict(kind='fragment', path='cds/opt/buffer.h', name='buf_mod', anchor=r'size_t mod\( size_t \w+ \)', occurrence=3),
]
for f in stage:
    if f['name'] in ('t_capacity', 'v_capacity', 'v_calc_real_size', 'v_is_tail', 'v_make_tail', 'v_untail'):
        f['rewrites'] = []

def G(name, harness, fns, expect, unwind=10, timeout=900, bounded='capacity <= 8 (power-of-two and modulo buffers), batch count <= 3; counters fully symbolic'):
    return dict(name=name, harness=harness, enforce=[], dfcc=False, functions=fns + ['initialized_dynamic_buffer::mod (cds/opt/buffer.h)'], expect=expect, props=['C12'], timeout=timeout, unwind=unwind, bounded=bounded,
                replay=dict(driver='replay.cpp', case=name, vars=[]))


TYPED = [
    ('t_push', 'h_t_push', ['WeakRingBuffer<T>::push(Q*,size_t,CopyFunc)'], [r'C12\.push']),
    ('t_enqueue', 'h_t_enqueue', ['WeakRingBuffer<T>::enqueue_with'], [r'C12\.enqueue_with']),
    ('t_pop', 'h_t_pop', ['WeakRingBuffer<T>::pop(Q*,size_t,CopyFunc)'], [r'C12\.pop']),
    ('t_dequeue', 'h_t_dequeue', ['WeakRingBuffer<T>::dequeue_with'], [r'C12\.dequeue_with']),
    ('t_front_pop_front', 'h_t_front_pop_front', ['WeakRingBuffer<T>::front', 'WeakRingBuffer<T>::pop_front'], [r'C12\.front', r'C12\.pop_front']),
    ('t_observers', 'h_t_observers', ['WeakRingBuffer<T>::size/empty/full'], [r'C12\.size']),
]
GROUPS = []
for n, h, f, e in TYPED:
    GROUPS.append(G(n + '_exp2', h, f, e, bounded='power-of-two capacity in {2,4,8}, batch count <= 3; counters fully symbolic 64-bit (across the wrap)'))
    x = G(n + '_mod', h, f, e, bounded='modulo buffer of capacity 6, batch count <= 3; counters < 4096')
    x['defines'] = ['VX_MOD_CAP=6']
    GROUPS.append(x)

VOID = [
    ('v_sizes', 'h_v_sizes', ['WeakRingBuffer<void>::calc_real_size/is_tail/make_tail/untail'], [r'C12\.calc_real_size', r'C12\.tail markers'], None),
    ('v_back', 'h_v_back', ['WeakRingBuffer<void>::back(size_t)', 'WeakRingBuffer<void>::push_back()'], [r'C12\.back', r'C12\.push_back'], 'x'),
    ('v_front', 'h_v_front', ['WeakRingBuffer<void>::front()', 'WeakRingBuffer<void>::pop_front()'], [r'C12\.front<void>', r'C12\.pop_front<void>'], 'x'),
]
for n, h, f, e, var in VOID:
    if var is None:
        g0 = G(n, h, f, e, bounded=None); g0['unwind'] = None
        GROUPS.append(g0)
        continue
    GROUPS.append(G(n + '_exp2', h, f, e, unwind=40, bounded='byte buffer of 32 bytes (power of two), record sizes 1..12 bytes; counters fully symbolic 64-bit'))
    x = G(n + '_mod', h, f, e, unwind=40, bounded='byte buffer of 24 bytes (modulo), record sizes 1..12 bytes; counters < 4096')
    x['defines'] = ['VX_MOD_VCAP=24']
    GROUPS.append(x)

UNIT = dict(
    properties=['C12'],
    stage=stage,
    decl_rules=[
        dict(path=WRB, re=r'atomics::atomic<counter_type>\s+front_;', count=2),
        dict(path=WRB, re=r'atomics::atomic<counter_type>\s+back_;', count=2),
        dict(path=WRB, re=r'counter_type\s+pfront_;', count=2),
        dict(path=WRB, re=r'counter_type\s+cback_;', count=2),
        dict(path=WRB, re=r'typedef uint64_t\s+counter_type;', count=2),
        dict(path='cds/opt/buffer.h', re=r'constexpr_if \( c_bExp2 \)\s*return idx & \( capacity\(\) - 1 \);\s*else\s*return idx % capacity\(\);', count=4),
    ],
    cxx=['shim.cpp'], c=['contracts.c'], cxxflags=['-Dconstexpr=', '-Dnoexcept=', '-Dexplicit=', '-Dconstexpr_if=if'],
    sabotage=[
        dict(name='back_no_recheck_after_tail', quick=True, target='v_back', re=r'(assert\( buffer_\.mod\( back \) == 0 \);\s*)if \( static_cast<size_t>\( pfront_ \+ capacity\(\) - back \) < real_size \) \{.*?\n                \}\n', to=r'\1', count=1, dotall=True,
             groups=['v_back_exp2'], expect_fail=r'C12\.back: the reserved record lies in free space'),
        dict(name='push_publishes_before_copy', target='t_push', lit='if ( static_cast<size_t>( pfront_ + capacity() - back ) < count ) {\n                    // not enough space', to='if ( static_cast<size_t>( pfront_ + capacity() - back ) + 1 < count ) {\n                    // not enough space', count=1,
             groups=['t_push_exp2'], expect_fail=r'C12\.push'),
        dict(name='pop_skips_refresh', target='t_pop', lit='cback_ = back_.load( atomics::memory_order_acquire );', to='cback_ = cback_ + count;', count=1, groups=['t_pop_exp2'], expect_fail=r'C12\.pop'),
    ],
    trusted_base=[
        'CBMC 6.11 C++ front end (partial)',
        'SC atomic<T> stub: release/acquire ordering between data and counters is NOT checked (all orders sequentially consistent)',
        'shell structs for WeakRingBuffer<T,Traits> / <void,Traits> (members tied to the real declarations by declaration rules); traits -> value_type int, no-op value_cleaner, buffer = array + real mod() fragment',
        'rely (SPSC): the other side only advances its own counter, never beyond the published region; one producer, one consumer',
        'memcpy in push_back(data,size) is not part of the unit (back + push_back are)',
    ],
    assumptions=['BOUNDED: capacity <= 8 elements / 32 or 24 bytes, batch <= 3, record payload <= 12 bytes; power-of-two buffers with fully symbolic 64-bit counters, modulo buffers with counters < 4096',
                 'modulo (non power-of-two) buffers: index continuity across the 2^64 counter wrap does not hold in the real code (2^64 is not a multiple of the capacity); unreachable in practice (2^64 pushes), excluded',
                 'consumer-side check of front()/pop_front() of the variable-size ring is without concurrent producer progress'],
    dropped=['template class context (traits machinery, padding members)', 'memory_model typedef -> atomics:: constants'],
    groups=GROUPS,
)
