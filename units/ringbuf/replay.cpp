// unit ringbuf — native replay: the real cds::container::WeakRingBuffer (typed and <void>) against a reference FIFO over
// every single-threaded operation sequence up to a small length (producer and consumer calls interleaved in one thread
// — the SPSC contract allows any such order). The verifier's counterexample state (counters, cached counters, buffer
// bytes) lives in verifier-built objects; this search reaches the same situations through real operations.
#include <cstdio>
#include <cstring>
#include <string>
#include <deque>
#include <vector>
#include <cds/container/weak_ringbuffer.h>
namespace cc = cds::container;
struct traits_mod : public cc::weak_ringbuffer::traits { typedef cds::opt::v::initialized_dynamic_buffer<void*, CDS_DEFAULT_ALLOCATOR, false> buffer; };
struct rec { size_t size; unsigned char fill; };
template <class Ring> static bool run_void(size_t cap, const std::vector<int>& ops, std::string& why) {
    Ring r(cap); std::deque<rec> model; unsigned char fill = 1; size_t used = 0; (void)used;
    for (int op : ops) {
        if (op > 0) {   // push a record of op bytes
            void* p = r.back((size_t)op);
            if (p) { std::memset(p, fill, (size_t)op); r.push_back(); model.push_back(rec{(size_t)op, fill}); ++fill; }
        } else {        // pop
            auto f = r.front();
            if (model.empty()) { if (f.first) { why = "front() returned a record from an empty ring"; return false; } }
            else {
                if (!f.first) { why = "front() returned null although a pushed record is pending"; return false; }
                rec e = model.front();
                if (f.second != e.size) { char b[160]; std::snprintf(b, sizeof b, "front() returned size %zu, expected the pushed record of size %zu", f.second, e.size); why = b; return false; }
                for (size_t i = 0; i < e.size; ++i) if (((unsigned char*)f.first)[i] != e.fill) { why = "record bytes differ from what was pushed"; return false; }
                r.pop_front(); model.pop_front();
            }
        }
    }
    return true;
}
template <class Ring> static bool run_typed(size_t cap, const std::vector<int>& ops, std::string& why) {
    Ring r(cap); std::deque<int> model; int next = 1;
    for (int op : ops) {
        int k = op > 0 ? op : -op; int arr[4];
        if (op > 0) {
            for (int i = 0; i < k; ++i) arr[i] = next + i;
            bool ok = r.push(arr, (size_t)k);
            bool room = model.size() + (size_t)k <= r.capacity();
            if (ok != room) { why = ok ? "push succeeded without room" : "push failed although the free space was sufficient"; return false; }
            if (ok) { for (int i = 0; i < k; ++i) model.push_back(arr[i]); next += k; }
        } else {
            bool ok = r.pop(arr, (size_t)k);
            bool have = model.size() >= (size_t)k;
            if (ok != have) { why = ok ? "pop succeeded with too few elements" : "pop failed although enough elements were present"; return false; }
            if (ok) for (int i = 0; i < k; ++i) { if (arr[i] != model.front()) { why = "pop delivered elements out of push order"; return false; } model.pop_front(); }
        }
    }
    return true;
}
template <class F> static int search(const std::vector<int>& alphabet, int maxlen, F f, const char* what) {
    std::vector<int> ops; std::string why;
    std::vector<size_t> idx;
    // iterative deepening over all sequences
    for (int len = 1; len <= maxlen; ++len) {
        idx.assign(len, 0);
        for (;;) {
            ops.clear(); for (int i = 0; i < len; ++i) ops.push_back(alphabet[idx[i]]);
            if (!f(ops, why)) {
                std::printf("REPRODUCED %s: operation sequence [", what);
                for (int o : ops) std::printf(" %s%d", o > 0 ? "push" : "pop", o > 0 ? o : -o);
                std::printf(" ] -> %s\n", why.c_str()); return 1;
            }
            int p = len - 1; while (p >= 0 && ++idx[p] == alphabet.size()) { idx[p] = 0; --p; }
            if (p < 0) break;
        }
    }
    return 0;
}
int main(int argc, char** argv) {
    std::string c = argc > 1 ? argv[1] : "";
    int rc = 0;
    if (c.compare(0, 2, "v_") == 0) {
        std::vector<int> a = { 8, 16, 24, 40, -1 };
        rc |= search(a, 7, [](const std::vector<int>& o, std::string& w) { return run_void<cc::WeakRingBuffer<void>>(64, o, w); }, "WeakRingBuffer<void> capacity 64");
        if (!rc) rc |= search(a, 7, [](const std::vector<int>& o, std::string& w) { return run_void<cc::WeakRingBuffer<void, traits_mod>>(72, o, w); }, "WeakRingBuffer<void> capacity 72 (modulo buffer)");
    } else {
        std::vector<int> a = { 1, 2, 3, -1, -2, -3 };
        rc |= search(a, 6, [](const std::vector<int>& o, std::string& w) { return run_typed<cc::WeakRingBuffer<int>>(4, o, w); }, "WeakRingBuffer<int> capacity 4");
        if (!rc) rc |= search(a, 6, [](const std::vector<int>& o, std::string& w) { return run_typed<cc::WeakRingBuffer<int, traits_mod>>(6, o, w); }, "WeakRingBuffer<int> capacity 6 (modulo buffer)");
    }
    if (!rc) std::printf("not reproduced over the native operation-sequence search\n");
    return rc;
}
