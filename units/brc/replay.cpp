// unit brc — native replay driver against /repo's cds/details/bit_reverse_counter.h
#include <cstdio>
#include <cstdlib>
#include <cstring>
#include <string>
#include <map>
#include <vector>
#define private public
#include <cds/details/bit_reverse_counter.h>
#undef private
typedef unsigned long long ull;
typedef cds::bitop::bit_reverse_counter<size_t> brc_t;
static std::map<std::string, ull> A;
static ull arg(const char* n) { return A.count(n) ? A[n] : 0; }
// reference: state determined by the counter value
static void ref_state(ull c, ull& r, int& h) {
    if (!c) { r = 0; h = -1; return; }
    h = 63 - __builtin_clzll(c); r = 1ull << h;
    for (int i = 0; i < h; ++i) if ((c >> (h - 1 - i)) & 1) r |= 1ull << i;
}
static void set(brc_t& b, ull c) { ull r; int h; ref_state(c, r, h); b.m_nCounter = c; b.m_nReversed = r; b.m_nHighBit = h; }
static bool same(const brc_t& b, ull c) { ull r; int h; ref_state(c, r, h); return b.value() == c && b.reversed_value() == r && b.high_bit() == h; }
static int bad(const char* what, ull c, const brc_t& b, ull ret) {
    std::printf("REPRODUCED %s from counter value %llu: returned %llu, state now (count=%zu, slot=%zu, level=%d)\n", what, c, ret, b.value(), b.reversed_value(), b.high_bit());
    return 1;
}
int main(int argc, char** argv) {
    if (argc < 2) return 2;
    std::string cs = argv[1];
    for (int i = 2; i < argc; ++i) { char* eq = std::strchr(argv[i], '='); if (!eq) continue; *eq = 0; A[argv[i]] = std::strtoull(eq + 1, nullptr, 0); }
    ull n = arg("n");
    // the counter value of the verifier's state is not a harness variable (it lives in a verifier-allocated object):
    // search natively around small values and powers of two as well as the hinted value
    std::vector<ull> cands; cands.push_back(arg("c"));
    for (ull v = 0; v < 5000; ++v) cands.push_back(v);
    for (int k = 1; k < 63; ++k) { cands.push_back((1ull << k) - 1); cands.push_back(1ull << k); cands.push_back((1ull << k) + 1); cands.push_back((1ull << k) | 5); }
    if (cs == "prefix_any_n") {
        ull c = arg("c"); ull r; int h; brc_t b; set(b, c ? c - 1 : 0);
        ull got = c ? b.inc() : 0;   // slot produced by the c-th increment, real code
        if (c >= 1 && c <= n && got > n) { std::printf("REPRODUCED first-n-slots-permutation: n=%llu, the %llu-th slot produced by the real inc() is %llu > n (e.g. n=5 gives slots 1,2,3,4,6)\n", n, c, got); return 1; }
        std::printf("not reproduced: slot(%llu)=%llu, n=%llu\n", c, got, n); (void)r; (void)h; return 0;
    }
    for (ull c : cands) {
        if (cs == "inc" && c != ~0ull) { brc_t b; set(b, c); ull ret = b.inc(); if (!same(b, c + 1) || ret != b.reversed_value()) return bad("inc()", c, b, ret); }
        if (cs == "dec" && c >= 1) { brc_t b; set(b, c); ull before = b.reversed_value(); ull ret = b.dec(); if (!same(b, c - 1) || ret != before) return bad("dec()", c, b, ret); }
        if (cs == "inc_dec" && c != ~0ull) { brc_t b; set(b, c); ull s1 = b.inc(); ull ret = b.dec(); if (!same(b, c) || ret != s1) return bad("inc();dec()", c, b, ret); }
        if (cs == "inc_dec_inc" && c != ~0ull) { brc_t b; set(b, c); ull s1 = b.inc(); b.dec(); ull ret = b.inc(); if (!same(b, c + 1) || ret != s1) return bad("inc();dec();inc()", c, b, ret); }
        if (cs == "dec_inc" && c >= 1) { brc_t b; set(b, c); ull s1 = b.dec(); ull ret = b.inc(); if (!same(b, c) || ret != s1) return bad("dec();inc()", c, b, ret); }
    }
    std::printf("not reproduced over %zu candidate counter values\n", cands.size());
    return 0;
}
