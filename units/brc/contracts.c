/* unit brc — property C26: the bit-reversed item counter of MSPriorityQueue. */
#include <vx_c.h>

/* State predicate. The counter value c determines the slot r and the level h:
   c == 0: r == 0, h == -1.  c > 0: h = floor(log2 c); r has its top bit at h (slot lies in level h, i.e. in
   [2^h, 2^(h+1))) and below it the low h bits of c in reversed order (bit i of r == bit h-1-i of c). */
#define BRC_WF(c, r, h) (((c) == 0) ? ((r) == 0 && (h) == -1) \
    : ((h) >= 0 && (h) < 64 && ((c) >> ((h) & 63)) == 1 && ((r) >> ((h) & 63)) == 1 \
       && __CPROVER_forall { unsigned iw; (iw < 64) ==> (((int)iw < (h)) ==> (BIT(r, iw) == BIT(c, ((h) - 1 - (int)iw) & 63))) }))
#define FRESH3 (__CPROVER_is_fresh(c, sizeof(size_t)) && __CPROVER_is_fresh(r, sizeof(size_t)) && __CPROVER_is_fresh(h, sizeof(int)))

void w_brc_ctor(size_t* c, size_t* r, int* h)
__CPROVER_requires(FRESH3)
__CPROVER_ensures(*c == 0 && BRC_WF(*c, *r, *h))
__CPROVER_assigns(*c, *r, *h);
void h_w_brc_ctor(void) { size_t* c; size_t* r; int* h; w_brc_ctor(c, r, h); VX_REACH_GUARD(); }

size_t w_brc_inc(size_t* c, size_t* r, int* h)
__CPROVER_requires(FRESH3 && BRC_WF(*c, *r, *h) && *c != ~(size_t)0)
__CPROVER_ensures(*c == __CPROVER_old(*c) + 1)
__CPROVER_ensures(BRC_WF(*c, *r, *h))
__CPROVER_ensures(__CPROVER_return_value == *r)
__CPROVER_assigns(*c, *r, *h);
void h_w_brc_inc(void) { size_t* c; size_t* r; int* h; w_brc_inc(c, r, h); VX_REACH_GUARD(); }

size_t w_brc_dec(size_t* c, size_t* r, int* h)
__CPROVER_requires(FRESH3 && BRC_WF(*c, *r, *h) && *c >= 1)
__CPROVER_ensures(__CPROVER_return_value == __CPROVER_old(*r))      /* returns the slot most recently produced */
__CPROVER_ensures(*c == __CPROVER_old(*c) - 1)
__CPROVER_ensures(BRC_WF(*c, *r, *h))
__CPROVER_assigns(*c, *r, *h);
void h_w_brc_dec(void) { size_t* c; size_t* r; int* h; w_brc_dec(c, r, h); VX_REACH_GUARD(); }

/* the property's second sentence, on the real code, one object, two calls */
size_t w_brc_inc_dec(size_t* c, size_t* r, int* h, size_t* slot_inc)
__CPROVER_requires(FRESH3 && __CPROVER_is_fresh(slot_inc, sizeof(size_t)) && BRC_WF(*c, *r, *h) && *c != ~(size_t)0)
__CPROVER_ensures(__CPROVER_return_value == *slot_inc)               /* dec returns the slot inc produced */
__CPROVER_ensures(*c == __CPROVER_old(*c) && *r == __CPROVER_old(*r) && *h == __CPROVER_old(*h))   /* counter as before that increment */
__CPROVER_assigns(*c, *r, *h, *slot_inc);
void h_w_brc_inc_dec(void) { size_t* c; size_t* r; int* h; size_t* s; w_brc_inc_dec(c, r, h, s); VX_REACH_GUARD(); }

size_t w_brc_inc_dec_inc(size_t* c, size_t* r, int* h, size_t* slot_inc)
__CPROVER_requires(FRESH3 && __CPROVER_is_fresh(slot_inc, sizeof(size_t)) && BRC_WF(*c, *r, *h) && *c != ~(size_t)0)
__CPROVER_ensures(__CPROVER_return_value == *slot_inc)               /* the slot is produced again after the undo */
__CPROVER_ensures(*c == __CPROVER_old(*c) + 1 && BRC_WF(*c, *r, *h) && *r == *slot_inc)
__CPROVER_assigns(*c, *r, *h, *slot_inc);
void h_w_brc_inc_dec_inc(void) { size_t* c; size_t* r; int* h; size_t* s; w_brc_inc_dec_inc(c, r, h, s); VX_REACH_GUARD(); }

size_t w_brc_dec_inc(size_t* c, size_t* r, int* h, size_t* slot_dec)
__CPROVER_requires(FRESH3 && __CPROVER_is_fresh(slot_dec, sizeof(size_t)) && BRC_WF(*c, *r, *h) && *c >= 1)
__CPROVER_ensures(__CPROVER_return_value == *slot_dec && *slot_dec == __CPROVER_old(*r))
__CPROVER_ensures(*c == __CPROVER_old(*c) && *r == __CPROVER_old(*r) && *h == __CPROVER_old(*h))
__CPROVER_assigns(*c, *r, *h, *slot_dec);
void h_w_brc_dec_inc(void) { size_t* c; size_t* r; int* h; size_t* s; w_brc_dec_inc(c, r, h, s); VX_REACH_GUARD(); }

/* ---------- lemmas over the state predicate / the contracts only (no libcds code) */
/* (L1) the state is a function of the counter value */
void h_lemma_wf_functional(void) {
    size_t c, r1, r2; int h1, h2;
    __CPROVER_assume(BRC_WF(c, r1, h1) && BRC_WF(c, r2, h2));
    __CPROVER_assert(r1 == r2 && h1 == h2, "C26.lemma: wf(c,r,h) determines r and h from c");
    VX_REACH_GUARD();
}
/* (L2) distinct counter values get distinct slots (slot -> counter is a function too) */
void h_lemma_slot_injective(void) {
    size_t c1, c2, r; int h1, h2;
    __CPROVER_assume(c1 != 0 && c2 != 0 && BRC_WF(c1, r, h1) && BRC_WF(c2, r, h2));
    __CPROVER_assert(c1 == c2, "C26.lemma: slot(c1) == slot(c2) implies c1 == c2");
    VX_REACH_GUARD();
}
/* (L3) slot(c) lies in the level of c: 2^h <= slot < 2^(h+1), h = floor(log2 c); in particular slot(c) != 0 */
void h_lemma_slot_level(void) {
    size_t c, r; int h;
    __CPROVER_assume(c != 0 && BRC_WF(c, r, h));
    __CPROVER_assert((c >> h) == 1 && (r >> h) == 1, "C26.lemma: slot(c) and c lie in the same level [2^h, 2^(h+1))");
    VX_REACH_GUARD();
}
/* (L4) complete prefixes: for n = 2^k - 1 every slot produced while count <= n is in 1..n. With L2 (injective)
   and pigeonhole the first n slots are a permutation of 1..n — the bound MSPriorityQueue::push relies on. */
void h_lemma_prefix_complete_levels(void) {
    size_t c, r, n; int h; unsigned k;
    __CPROVER_assume(k >= 1 && k <= 64);
    n = (k == 64) ? ~(size_t)0 : (((size_t)1 << k) - 1);
    __CPROVER_assume(c >= 1 && c <= n && BRC_WF(c, r, h));
    __CPROVER_assert(r >= 1 && r <= n, "C26.prefix_is_permutation_complete_levels: for n = 2^k - 1, slot(c) in 1..n for every c <= n");
    VX_REACH_GUARD();
}
/* (F5) the literal statement "for EVERY n the first n slots are a permutation of 1..n" needs slot(c) <= n for all
   c <= n. It is FALSE for n not of the form 2^k - 1 (n = 5: slots 1,2,3,4,6) by design of the scattering scheme.
   Listed in known_findings.txt; any other failing obligation of this unit is a violation. */
void h_prefix_any_n(void) {
    size_t c, r, n; int h;
    __CPROVER_assume(c >= 1 && c <= n && BRC_WF(c, r, h));
    __CPROVER_assert(r <= n, "C26.prefix_is_permutation_any_n: slot(c) <= n for every c <= n (literal statement, every n)");
    VX_REACH_GUARD();
}
/* (L5) lemma over the inc/dec CONTRACTS only: dec undoes inc */
size_t c_brc_inc(size_t* c, size_t* r, int* h)
__CPROVER_requires(BRC_WF(*c, *r, *h) && *c != ~(size_t)0)
__CPROVER_ensures(*c == __CPROVER_old(*c) + 1 && BRC_WF(*c, *r, *h) && __CPROVER_return_value == *r)
__CPROVER_assigns(*c, *r, *h);
size_t c_brc_dec(size_t* c, size_t* r, int* h)
__CPROVER_requires(BRC_WF(*c, *r, *h) && *c >= 1)
__CPROVER_ensures(__CPROVER_return_value == __CPROVER_old(*r) && *c == __CPROVER_old(*c) - 1 && BRC_WF(*c, *r, *h))
__CPROVER_assigns(*c, *r, *h);
void h_lemma_dec_undoes_inc(void) {
    size_t c, r; int h;
    __CPROVER_assume(BRC_WF(c, r, h) && c != ~(size_t)0);
    size_t c0 = c, r0 = r; int h0 = h;
    size_t s1 = c_brc_inc(&c, &r, &h);
    size_t s2 = c_brc_dec(&c, &r, &h);
    __CPROVER_assert(s2 == s1, "C26.lemma: dec returns the slot the preceding inc produced (contracts only)");
    __CPROVER_assert(c == c0 && r == r0 && h == h0, "C26.lemma: dec leaves the counter as it was before that inc (contracts only)");
    VX_REACH_GUARD();
}
