# unit brc — property C26
BRC = 'cds::bitop::bit_reverse_counter<size_t>::'


def g(name, fn, unwind=66, timeout=600, expect=None, enforce=True, replace=(), tier='quick', replay=None):
    w = 'w_brc_' + name
    d = dict(name=name, harness='h_' + w, enforce=[w], replace=list(replace), unwind=unwind, tier=tier, functions=fn,
             expect=expect or [w + r'\.postcondition'], timeout=timeout, props=['C26'])
    if replay:
        d['replay'] = replay
    return d


def lemma(name, harness, expect, replace=(), unwind=None, timeout=600):
    return dict(name=name, harness=harness, enforce=[], replace=list(replace), unwind=unwind, functions=['lemma over the brc state predicate / contracts'],
                expect=[expect], timeout=timeout, props=['C26'])


RP = lambda case: dict(driver='replay.cpp', case=case, vars=['c', 'n', 'k'])
UNIT = dict(
    properties=['C26'],
    stage=[
        dict(kind='verbatim', path='cds/details/bit_reverse_counter.h', must_contain=[r'counter_type\s+m_nCounter\b', r'counter_type\s+m_nReversed\b', r'int\s+m_nHighBit\b']),
        dict(kind='fragment', path='cds/algo/bitop.h', name='BitOps4', anchor=r'template <> struct BitOps<4>', body_only=True),
        dict(kind='fragment', path='cds/algo/bitop.h', name='BitOps8', anchor=r'template <> struct BitOps<8>', body_only=True),
        dict(kind='verbatim', path='cds/details/bitop_generic.h'),
        dict(kind='shadow', path='cds/compiler/bitop.h', rewrites=[
            dict(lit='#       include <cds/compiler/gcc/amd64/bitop.h>', to='#       include <vx_asm_bitop.h>', count=1,
                 why='inline asm (bsr/bsf) is invisible to CBMC; not used by the counter')]),
    ],
    cxx=['shim.cpp'], c=['contracts.c'], cxxflags=['-Dconstexpr=', '-Dnoexcept=', '-Dexplicit=', '-Dprivate=public', '-I/verif/units/bits'],
    groups=[
        g('ctor', [BRC + 'bit_reverse_counter()'], unwind=None),
        # loops of inc/dec walk at most m_nHighBit <= 63 bits: unwind 66 with unwinding assertions is width-complete
        g('inc', [BRC + 'inc', 'cds::bitop::complement (BitOps<8>::complement -> platform::complement64)'], replay=RP('inc')),
        g('dec', [BRC + 'dec'], replay=RP('dec')),
        g('inc_dec', [BRC + 'inc', BRC + 'dec'], replay=RP('inc_dec')),
        g('inc_dec_inc', [BRC + 'inc', BRC + 'dec'], replay=RP('inc_dec_inc')),
        g('dec_inc', [BRC + 'inc', BRC + 'dec'], replay=RP('dec_inc')),
        lemma('lemma_wf_functional', 'h_lemma_wf_functional', r'C26\.lemma'),
        lemma('lemma_slot_injective', 'h_lemma_slot_injective', r'C26\.lemma'),
        lemma('lemma_slot_level', 'h_lemma_slot_level', r'C26\.lemma'),
        lemma('lemma_prefix_complete_levels', 'h_lemma_prefix_complete_levels', r'C26\.prefix_is_permutation_complete_levels'),
        dict(name='prefix_any_n', harness='h_prefix_any_n', enforce=[], replace=[], functions=['literal statement of C26, first sentence'],
             expect=[r'C26\.prefix_is_permutation_any_n'], timeout=600, props=['C26'], replay=RP('prefix_any_n')),
        lemma('lemma_dec_undoes_inc', 'h_lemma_dec_undoes_inc', r'C26\.lemma', replace=['c_brc_inc', 'c_brc_dec']),
    ],
    sabotage=[
        dict(name='inc_keeps_level', quick=True, target='cds/details/bit_reverse_counter.h', lit='                ++m_nHighBit;', to='                /*++m_nHighBit;*/', count=1,
             groups=['inc'], expect_fail=r'w_brc_inc\.postcondition'),
        dict(name='dec_returns_new_slot', target='cds/details/bit_reverse_counter.h', lit='            return ret;', to='            return m_nReversed;', count=1,
             groups=['dec'], expect_fail=r'w_brc_dec\.postcondition'),
    ],
    trusted_base=[
        'CBMC 6.11 C++ front end (partial) and DFCC contract instrumentation',
        'bitop.h shell: complement<T>(T&,int) selection by sizeof(T) assumed; BitOps<8>::complement body is the real text',
        'pigeonhole step (n distinct values in 1..n form a permutation) is a paper argument over lemmas L2 and L4',
    ],
    assumptions=['Counter = size_t (the instantiation MSPriorityQueue uses)', 'the object state is exactly (m_nCounter, m_nReversed, m_nHighBit); state hidden elsewhere is only exercised by the two- and three-call harnesses'],
    dropped=['private -> public (access control only)', 'constexpr/noexcept/explicit keywords'],
)
