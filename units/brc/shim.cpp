// unit brc — cds/details/bit_reverse_counter.h (verbatim; `private` -> `public` by -D so the wrappers can
// set up and read the object's state). complement() goes through the bitop.h shell to the real
// BitOps<8>::complement -> platform::complement64.
#include <cds/details/bit_reverse_counter.h>
typedef cds::bitop::bit_reverse_counter<size_t> brc_t;

static inline void load(brc_t& b, const size_t* c, const size_t* r, const int* h) { b.m_nCounter = *c; b.m_nReversed = *r; b.m_nHighBit = *h; }
static inline void store(const brc_t& b, size_t* c, size_t* r, int* h) { *c = b.value(); *r = b.reversed_value(); *h = b.high_bit(); }

extern "C" void w_brc_ctor(size_t* c, size_t* r, int* h) { brc_t b; store(b, c, r, h); }
extern "C" size_t w_brc_inc(size_t* c, size_t* r, int* h) { brc_t b; load(b, c, r, h); size_t ret = b.inc(); store(b, c, r, h); return ret; }
extern "C" size_t w_brc_dec(size_t* c, size_t* r, int* h) { brc_t b; load(b, c, r, h); size_t ret = b.dec(); store(b, c, r, h); return ret; }
// two/three real calls on ONE object (catches state kept outside the three documented members)
extern "C" size_t w_brc_inc_dec(size_t* c, size_t* r, int* h, size_t* slot_inc) { brc_t b; load(b, c, r, h); *slot_inc = b.inc(); size_t ret = b.dec(); store(b, c, r, h); return ret; }
extern "C" size_t w_brc_inc_dec_inc(size_t* c, size_t* r, int* h, size_t* slot_inc) { brc_t b; load(b, c, r, h); *slot_inc = b.inc(); b.dec(); size_t ret = b.inc(); store(b, c, r, h); return ret; }
extern "C" size_t w_brc_dec_inc(size_t* c, size_t* r, int* h, size_t* slot_dec) { brc_t b; load(b, c, r, h); *slot_dec = b.dec(); size_t ret = b.inc(); store(b, c, r, h); return ret; }
