/* unit hp_scan — ghost state and obligations for C01 / C03 (Hazard Pointer SMR) */
#include <vx_c.h>
/* Address values of retired objects / hazard slots: pointers into one arena object (so that ordering them with < is a
   same-object comparison for the verifier), at any offset 1..63, odd or even: realises every order type with every parity assignment. The wide-span
   variant below covers address arithmetic beyond 32 bits. Never dereferenced. */
#ifdef VX_WIDE
/* wide-span variant: address values are integers below 2^VX_WIDE (default 2^34 = 16 GiB, spans that do not fit 32 bits are
   inside the check), converted to pointers; run with the pointer checks off (such pointers have no object for CBMC) */
void* vx_nondet_ptr(void) { size_t v; __CPROVER_assume(v >= 1 && v < ((size_t)1 << VX_WIDE)); return (void*)v; }
void* vx_nondet_ptr_or_null(void) { size_t v; __CPROVER_assume(v < ((size_t)1 << VX_WIDE)); return (void*)v; }
#else
#define VX_ADDR_BOUND 64
char vx_arena[VX_ADDR_BOUND];
void* vx_nondet_ptr(void) { unsigned v; __CPROVER_assume(v >= 1 && v < VX_ADDR_BOUND); return &vx_arena[v]; }
void* vx_nondet_ptr_or_null(void) { unsigned v; __CPROVER_assume(v < VX_ADDR_BOUND); return v ? (void*)&vx_arena[v] : NULL; }
#endif
int vx_nondet_int(void) { int v; return v; }
size_t vx_nondet_size(void) { size_t v; return v; }
void vx_throw(void) { __CPROVER_assume(0); }
void vx_vector_overflow(void) { __CPROVER_assert(0, "C01.plist_capacity: classic_scan pushes more hazard values than plist.reserve() provided"); }
void* vx_alloc(size_t n) { return __CPROVER_allocate(n, 0); }
void vx_free(void* p) { (void)p; }

/* ---- witness (C01): one hazard slot (vx_wrec, vx_wslot) holds vx_P for the whole pass; every other slot returns an
   arbitrary value on every load (any interleaving of other threads' protect/clear with the pass) */
void* vx_P; unsigned vx_wrec, vx_wslot; const void* vx_wslot_addr; int vx_built;
/* ---- tracked object (C03): vx_T, number of times it was given to the disposer */
void* vx_T; int vx_T_disposed; int vx_T_retired; int vx_T_unprotected;   /* vx_T_unprotected: no load ever returns vx_T */
#ifndef VX_CAP
#define VX_CAP 3
#endif
#ifndef VX_NREC
#define VX_NREC 2
#endif
#ifndef VX_H
#define VX_H 2
#endif
#define MAXSLOTS (VX_NREC * VX_H)
const void* vx_slots[MAXSLOTS]; unsigned vx_nslots;
#define MAXRET (VX_NREC * VX_CAP)
void* vx_retired_set[MAXRET]; unsigned vx_nret; int vx_kept_P, vx_kept_T;

void vx_register_slot(const void* a, unsigned rec, unsigned k) {
    if (vx_nslots < MAXSLOTS) vx_slots[vx_nslots++] = a;
    if (rec == vx_wrec && k == vx_wslot) vx_wslot_addr = a;
}
void vx_world_built(void) { vx_built = 1; }
int vx_is_slot(const void* addr) {
    if (!vx_built) return 0;
    for (unsigned i = 0; i < MAXSLOTS; ++i) if (i < vx_nslots && vx_slots[i] == addr) return 1;
    return 0;
}
uintptr_t vx_slot_value(const void* addr) {
    if (addr == vx_wslot_addr) return (uintptr_t)vx_P;      /* the witness guard protects P for the whole pass */
    void* r = vx_nondet_ptr_or_null();                       /* any other slot: whatever its owner wrote last */
    if (vx_T_unprotected) __CPROVER_assume(r != vx_T);
    return (uintptr_t)r;
}
void vx_pre_retired(unsigned rec, unsigned idx, void* p) {
    __CPROVER_assume(p != NULL);
    for (unsigned i = 0; i < MAXRET; ++i) if (i < vx_nret) __CPROVER_assume(vx_retired_set[i] != p);   /* retire() is called once per object */
    if (vx_nret < MAXRET) vx_retired_set[vx_nret++] = p;
    if (p == vx_T) vx_T_retired = 1;
}
void vx_post_retired(unsigned rec, unsigned idx, void* p) { if (p == vx_P) vx_kept_P++; if (p == vx_T) vx_kept_T++; }
void vf_dispose(void* p) {
    __CPROVER_assert(p != vx_P || vx_P == NULL, "C01.no_free_while_guarded: an object a guard protected for the whole pass was given to its disposer");
    int known = 0;
    for (unsigned i = 0; i < MAXRET; ++i) if (i < vx_nret && vx_retired_set[i] == p) known = 1;
    __CPROVER_assert(known, "C03.no_invention: disposer called on a pointer that was never retired");
    if (p == vx_T) { vx_T_disposed++; __CPROVER_assert(vx_T_disposed <= 1, "C03.at_most_once: a retired object was given to its disposer twice"); }
}
int vx_destroyed_nonempty;
void vx_destroy_record(void* rec, size_t retired_size) { if (retired_size != 0) vx_destroyed_nonempty = 1; }

#ifndef VX_CAP
#define VX_CAP 3
#endif
#ifndef VX_NREC
#define VX_NREC 2
#endif
#ifndef VX_H
#define VX_H 2
#endif
void w_hp_scan(int scan_kind, size_t n, unsigned witness_rec);
void w_hp_retire(int scan_kind, size_t n, unsigned witness_rec);
void w_hp_help_scan(int scan_kind, size_t n0, size_t n1, size_t n2);
void w_hp_dtor(size_t n0, size_t n1, size_t n2);
void w_hp_detach(int scan_kind, size_t n0, unsigned witness_rec, int call_help_scan);
static void pick(int with_witness, int T_unprotected) {
    unsigned wr, ws; void* P = vx_nondet_ptr(); void* T = vx_nondet_ptr();
    __CPROVER_assume(wr < VX_NREC && ws < VX_H);
    vx_wrec = wr; vx_wslot = ws; vx_T = T; vx_T_unprotected = T_unprotected;
    if (with_witness) { vx_P = P; if (T_unprotected) __CPROVER_assume(P != T); }
    else { vx_P = NULL; vx_wrec = VX_NREC; }    /* no witness slot: every slot arbitrary */
}
static int scan_kind(void) {
    int kind; __CPROVER_assume(kind == 0 || kind == 1);
#ifdef VX_SCAN
    __CPROVER_assume(kind == VX_SCAN);
#endif
    return kind;
}
/* C01: one pass by thread record 0; its retired array holds n <= VX_CAP arbitrary distinct non-null pointers (odd and
   even); the witness slot may sit in any record (record 0 included), which stays attached during the pass */
void h_scan_c01(void) {
    size_t n; __CPROVER_assume(n <= VX_CAP);
    pick(1, 0);
    w_hp_scan(scan_kind(), n, vx_wrec);
    __CPROVER_assert(vx_kept_P <= 1, "C01.kept_once: a protected retired object stays in the retired array at most once");
    VX_REACH_GUARD();
}
/* C03 (a): T retired, no guard ever shows T during the pass => disposed exactly once and gone from the array.
   C03 (b): T retired and protected by the witness for the whole pass => not disposed and still in the array once. */
void h_scan_c03_free(void) {
    size_t n; __CPROVER_assume(n <= VX_CAP);
    pick(1, 1);
    w_hp_scan(scan_kind(), n, vx_wrec);
    if (vx_T_retired) {
        __CPROVER_assert(vx_T_disposed == 1, "C03.freed_when_unprotected: a pass that runs while no guard protects a retired object frees it");
        __CPROVER_assert(vx_kept_T == 0, "C03.gone_after_free: a disposed object is no longer in the retired array");
    } else
        __CPROVER_assert(vx_T_disposed == 0, "C03.no_invention: an object that was not retired is never disposed");
    VX_REACH_GUARD();
}
void h_scan_c03_keep(void) {
    size_t n; __CPROVER_assume(n <= VX_CAP);
    pick(1, 0);
    __CPROVER_assume(vx_T == vx_P);
    w_hp_scan(scan_kind(), n, vx_wrec);
    if (vx_T_retired) {
        __CPROVER_assert(vx_T_disposed == 0, "C03.kept_when_protected: a protected retired object is not disposed by the pass");
        __CPROVER_assert(vx_kept_T == 1, "C03.kept_exactly_once: a protected retired object stays in the retired array exactly once");
    }
    VX_REACH_GUARD();
}

/* retire(): push, then scan iff the array became full. Documented precondition: capacity > hazard count * thread count.
   The witness P is protected; T is the object being retired or an earlier one. */
void h_retire(void) {
    size_t n; __CPROVER_assume(n < VX_CAP);                 /* room for this retire (established by the previous one) */
    pick(1, 0);
    w_hp_retire(scan_kind(), n, vx_wrec);
    __CPROVER_assert(vx_T_disposed + vx_kept_T == vx_T_retired, "C03.retire_conserves: after retire() a retired object is in the array once or was disposed once");
    VX_REACH_GUARD();
}
/* help_scan: nothing of an abandoned record is lost or disposed twice; T unprotected for the whole call => wherever it was
   retired it ends up disposed once or kept once in the helper's array */
void h_help_scan(void) {
    size_t n0, n1, n2; __CPROVER_assume(n0 < VX_CAP && n1 <= VX_CAP && n2 <= VX_CAP);
    pick(0, 0);
    w_hp_help_scan(scan_kind(), n0, n1, n2);
    __CPROVER_assert(vx_T_disposed + vx_kept_T == vx_T_retired, "C03.help_scan_conserves: every retired object is afterwards in exactly one retired array or was disposed exactly once");
    VX_REACH_GUARD();
}
/* destruction of the singleton: every element of every record is disposed exactly once, nothing is left */
void h_dtor(void) {
    size_t n0, n1, n2; __CPROVER_assume(n0 <= VX_CAP && n1 <= VX_CAP && n2 <= VX_CAP);
    pick(0, 0);
    w_hp_dtor(n0, n1, n2);
    __CPROVER_assert(vx_T_disposed == vx_T_retired, "C03.dtor_disposes_all: destruction of the singleton disposes every still-retired object exactly once");
    __CPROVER_assert(!vx_destroyed_nonempty, "C03.dtor_leaves_nothing: every record's retired array is empty when the record is destroyed");
    VX_REACH_GUARD();
}
/* detach: the thread's retired objects are disposed or stay reachable in its (now ownerless) record */
void h_detach(void) {
    size_t n0; int help; __CPROVER_assume(n0 <= VX_CAP);
    pick(1, 0);
    __CPROVER_assume(vx_wrec != 0);      /* the detaching thread's own guards are cleared by detach: the witness guard belongs to another thread */
    w_hp_detach(scan_kind(), n0, vx_wrec, help);
    __CPROVER_assert(vx_T_disposed + vx_kept_T == vx_T_retired, "C03.detach_conserves: after detach a retired object was disposed once or is still in the record's array once");
    VX_REACH_GUARD();
}
