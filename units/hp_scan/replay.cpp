// unit hp_scan — native replay: the real cds::gc::HP singleton (src/hp.cpp compiled from /repo), fake object
// addresses (never dereferenced), a counting disposer. The verifier's counterexample names the strategy; object
// addresses and guard placement live in verifier-allocated state, so the driver searches small scenarios natively:
// every sequence of <= 3 retired addresses (odd and even) x every subset protected by this thread's guards.
#include <cstdio>
#include <cstdlib>
#include <cstring>
#include <string>
#include <map>
#include <vector>
#include <cds/init.h>
#include <cds/gc/hp.h>
#include <atomic>
#include <thread>
#include <mutex>
typedef unsigned long long ull;
static std::map<void*, int> disposed;
static void disposer(void* p) { disposed[p]++; }
static int run(int scan_kind, const char* what) {
    cds::Initialize();
    int found = 0;
    {
        cds::gc::HP hp(4, 2, 8, scan_kind == 0 ? cds::gc::HP::scan_type::classic : cds::gc::HP::scan_type::inplace);
        cds::threading::Manager::attachThread();
        static const uintptr_t addrs[] = { 0x1000, 0x2000, 0x3000, 0x1001, 0x2003, 0x100002000ull, 0x300000040ull };   // near, odd, and > 4 GiB apart
        const unsigned NA = 7;
        for (unsigned a = 0; a < NA && !found; ++a) for (unsigned b = 0; b < NA && !found; ++b) for (unsigned c = 0; c <= NA && !found; ++c)
        for (unsigned mask = 0; mask < 8 && !found; ++mask) {
            std::vector<void*> objs; objs.push_back((void*)addrs[a]); if (b != a) objs.push_back((void*)addrs[b]); if (c < NA && c != a && c != b) objs.push_back((void*)addrs[c]);
            disposed.clear();
            cds::gc::HP::Guard g[3];
            for (size_t i = 0; i < objs.size(); ++i) if (mask & (1u << i)) g[i].assign(objs[i]);
            for (void* p : objs) cds::gc::HP::retire(p, disposer);
            cds::gc::HP::scan();
            for (size_t i = 0; i < objs.size(); ++i) {
                bool prot = mask & (1u << i);
                if (prot && disposed[objs[i]] > 0 && !found) {
                    std::printf("REPRODUCED %s: HP(%s scan): retire of %zu objects, object #%zu (address %p) is protected by a guard during scan() and was given to its disposer\n",
                                what, scan_kind == 0 ? "classic" : "inplace", objs.size(), i, objs[i]); found = 1;
                }
                if (!prot && disposed[objs[i]] != 1 && !found && std::strstr(what, "C03")) {
                    std::printf("REPRODUCED %s: HP(%s scan): unprotected retired object #%zu disposed %d times by scan()\n", what, scan_kind == 0 ? "classic" : "inplace", i, disposed[objs[i]]); found = 1;
                }
                if (disposed[objs[i]] > 1 && !found) { std::printf("REPRODUCED %s: object disposed %d times\n", what, disposed[objs[i]]); found = 1; }
            }
            for (int i = 0; i < 3; ++i) g[i].clear();
            cds::gc::HP::scan();      // drain before the next scenario
        }
        cds::threading::Manager::detachThread();
    }
    cds::Terminate();
    if (!found) std::printf("not reproduced over the native scan scenario search\n");
    return found;
}
// second family: adoption of an abandoned thread record while the adopter's retired array fills up (help_scan at detach).
// H = 2 guards per thread, N = 4 threads, capacity in the documented range (> H*N). Holders T1/T2 keep two guards each across the
// phases; B retires six guarded objects and exits (its record is abandoned with leftovers); the holders move their guards to
// m0..m3; M retires m0..m3 and detaches: its scan keeps them, then help_scan adopts B's six leftovers.
static std::mutex dmx; static std::map<void*, int> disposed2; static void disposer2(void* p) { std::lock_guard<std::mutex> l(dmx); disposed2[p]++; }
static std::atomic<int> phase(0), acks(0);
static void holder(uintptr_t b0, uintptr_t m0) {
    cds::threading::Manager::attachThread();
    { cds::gc::HP::Guard g0, g1; g0.assign((void*)b0); g1.assign((void*)(b0 + 0x10)); ++acks;
      while (phase.load() < 2) std::this_thread::yield();
      g0.assign((void*)m0); g1.assign((void*)(m0 + 0x10)); ++acks;
      while (phase.load() < 4) std::this_thread::yield(); }
    cds::threading::Manager::detachThread();
}
static int run_adopt(int scan_kind, const char* what) {
    int found = 0;
    for (size_t cap = 9; cap <= 10 && !found; ++cap) {
        cds::Initialize();
        disposed2.clear(); phase = 0; acks = 0;
        uintptr_t B = 0x10000, M = 0x20000;      // b_i = B + 0x10*i, m_i = M + 0x10*i
        {
            cds::gc::HP hp(2, 4, cap, scan_kind == 0 ? cds::gc::HP::scan_type::classic : cds::gc::HP::scan_type::inplace);
            cds::threading::Manager::attachThread();
            std::thread t1(holder, B + 0x20, M), t2(holder, B + 0x40, M + 0x20);
            {
                cds::gc::HP::Guard g0, g1; g0.assign((void*)B); g1.assign((void*)(B + 0x10));
                while (acks.load() < 2) std::this_thread::yield();
                std::thread b([B]{ cds::threading::Manager::attachThread(); for (int i = 0; i < 6; ++i) cds::gc::HP::retire((void*)(B + 0x10 * i), disposer2); cds::threading::Manager::detachThread(); });
                b.join();
            }
            phase = 2; while (acks.load() < 4) std::this_thread::yield();
            for (int i = 0; i < 4; ++i) cds::gc::HP::retire((void*)(M + 0x10 * i), disposer2);
            cds::threading::Manager::detachThread();       // scan + help_scan (adoption)
            phase = 4; t1.join(); t2.join();
        }
        cds::Terminate();
        for (int i = 0; i < 6 && !found; ++i) if (disposed2[(void*)(B + 0x10 * i)] != 1) {
            std::printf("REPRODUCED %s: HP(2 guards, 4 threads, retired capacity %zu, %s scan): object b%d, left behind by an exited thread and adopted by help_scan() while the adopter's array filled up, was disposed %d times by the end of the singleton\n",
                        what, cap, scan_kind == 0 ? "classic" : "inplace", i, disposed2[(void*)(B + 0x10 * i)]); found = 1; }
        for (int i = 0; i < 4 && !found; ++i) if (disposed2[(void*)(M + 0x10 * i)] != 1) {
            std::printf("REPRODUCED %s: object m%d disposed %d times\n", what, i, disposed2[(void*)(M + 0x10 * i)]); found = 1; }
    }
    return found;
}
int main(int argc, char** argv) {
    if (argc < 2) return 2;
    std::string c = argv[1];
    int kind = c.find("classic") != std::string::npos ? 0 : 1;
    int r = run(kind, c.c_str());
    if (!r && c.find("c01") == std::string::npos) { r = run_adopt(kind, c.c_str()); if (r) return 1; }
    return r;
}
