// unit hp_scan — native replay: the real cds::gc::HP singleton (src/hp.cpp compiled from /repo), fake object
// addresses (never dereferenced), a counting disposer. The verifier's counterexample names the strategy; object
// addresses and guard placement live in verifier-allocated state, so the driver searches small scenarios natively:
// every sequence of <= 3 retired addresses (odd and even) x every subset protected by this thread's guards.
#include <cstdio>
#include <cstdlib>
#include <cstring>
#include <string>
#include <map>
#include <vector>
#include <cds/init.h>
#include <cds/gc/hp.h>
typedef unsigned long long ull;
static std::map<void*, int> disposed;
static void disposer(void* p) { disposed[p]++; }
static int run(int scan_kind, const char* what) {
    cds::Initialize();
    int found = 0;
    {
        cds::gc::HP hp(4, 2, 8, scan_kind == 0 ? cds::gc::HP::scan_type::classic : cds::gc::HP::scan_type::inplace);
        cds::threading::Manager::attachThread();
        static const uintptr_t addrs[] = { 0x1000, 0x2000, 0x3000, 0x1001, 0x2003, 0x100002000ull, 0x300000040ull };   // near, odd, and > 4 GiB apart
        const unsigned NA = 7;
        for (unsigned a = 0; a < NA && !found; ++a) for (unsigned b = 0; b < NA && !found; ++b) for (unsigned c = 0; c <= NA && !found; ++c)
        for (unsigned mask = 0; mask < 8 && !found; ++mask) {
            std::vector<void*> objs; objs.push_back((void*)addrs[a]); if (b != a) objs.push_back((void*)addrs[b]); if (c < NA && c != a && c != b) objs.push_back((void*)addrs[c]);
            disposed.clear();
            cds::gc::HP::Guard g[3];
            for (size_t i = 0; i < objs.size(); ++i) if (mask & (1u << i)) g[i].assign(objs[i]);
            for (void* p : objs) cds::gc::HP::retire(p, disposer);
            cds::gc::HP::scan();
            for (size_t i = 0; i < objs.size(); ++i) {
                bool prot = mask & (1u << i);
                if (prot && disposed[objs[i]] > 0 && !found) {
                    std::printf("REPRODUCED %s: HP(%s scan): retire of %zu objects, object #%zu (address %p) is protected by a guard during scan() and was given to its disposer\n",
                                what, scan_kind == 0 ? "classic" : "inplace", objs.size(), i, objs[i]); found = 1;
                }
                if (!prot && disposed[objs[i]] != 1 && !found && std::strstr(what, "C03")) {
                    std::printf("REPRODUCED %s: HP(%s scan): unprotected retired object #%zu disposed %d times by scan()\n", what, scan_kind == 0 ? "classic" : "inplace", i, disposed[objs[i]]); found = 1;
                }
                if (disposed[objs[i]] > 1 && !found) { std::printf("REPRODUCED %s: object disposed %d times\n", what, disposed[objs[i]]); found = 1; }
            }
            for (int i = 0; i < 3; ++i) g[i].clear();
            cds::gc::HP::scan();      // drain before the next scenario
        }
        cds::threading::Manager::detachThread();
    }
    cds::Terminate();
    if (!found) std::printf("not reproduced over the native scenario search\n");
    return found;
}
int main(int argc, char** argv) {
    if (argc < 2) return 2;
    std::string c = argv[1];
    int kind = c.find("classic") != std::string::npos ? 0 : 1;
    return run(kind, c.c_str());
}
