# unit hp_scan — Hazard Pointer reclamation (C01: never frees a guarded object; C03: every retired object disposed exactly once)
HPCPP = 'src/hp.cpp'
AUTO = 'CBMC types `auto` as int; explicit type = what g++ deduces (static_assert-checked in the native replay build)'


def frag(name, anchor, rewrites=None, **kw):
    d = dict(kind='fragment', path=HPCPP, name=name, anchor=anchor, rewrites=rewrites or [])
    d.update(kw)
    return d


stage = [
    dict(kind='shadow', path='cds/gc/details/retired_ptr.h', rewrites=[
        dict(re=r': m_p\( (.+?)\)\s*, m_funcFree\( (.+?) \)\s*\{\}', to=r': m_funcFree( \2 ) { m_p = \1; }', count=4,
             why='initialiser of an anonymous-union member is rejected by the front end; same stores in the body'),
        dict(re=r'template <typename Func, typename T>\s*static inline cds::gc::details::retired_ptr make_retired_ptr\( T \* p \)\s*\{\s*return[^\n]*\n\s*\}', to='', count=1,
             why='lambda (unsupported); not called by any verified function'),
    ]),
    dict(kind='shadow', path='cds/gc/details/hp_common.h', rewrites=[
        dict(re=r'^\s*\w+\((?:\w+ const ?&|\w+ ?&&)?\) = delete;\n', to='', count=9, why='= delete on ctors aborts the front end; deleted functions are never called'),
        dict(lit='arr_{ nullptr }', to='arr_()', count=1, why='brace initialiser in ctor list; both value-initialise'),
        dict(lit='bool push(retired_ptr &&p) noexcept', to='bool push(retired_ptr &p) noexcept', count=1, why='rvalue-reference parameter; inside the callee a named T&& is an lvalue'),
        dict(lit='static thread_local thread_data* tls_;', to='static thread_data* tls_;', count=1, why='thread_local storage class; TLS manager is not on a verified path'),
        dict(lit='using cds::gc::make_retired_ptr;', to='', count=1, why='function dropped above'),
        dict(lit='new( arr ) guard[nSize];', to='vx_construct_guards( arr, nSize );', count=1, why='placement array-new; replaced by a loop of the same default constructions'),
    ]),
    dict(kind='fragment', path='cds/gc/hp.h', name='basic_smr', anchor=r'class basic_smr(?= \{)', semicolon=True, rewrites=[
        dict(re=r'template<typename TLSManager>\s*friend class generic_smr;', to='', count=1, why='friend template (unsupported); access control only'),
        dict(lit='(this->*scan_func_)(pRec);', to='if ( scan_type_ == classic ) classic_scan( pRec ); else inplace_scan( pRec );', count=1,
             why='pointer to member function (unsupported); the ctor sets scan_func_ from scan_type_ by exactly this rule (pinned by the ctor rewrite)'),
        dict(lit='void ( basic_smr::*scan_func_ )(thread_data *pRec);', to='', count=1, why='pointer to member function'),
        dict(lit='thread_record*                      next_ = nullptr;', to='thread_record*                      next_;', count=1, why='default member initialiser; set in the ctor body below'),
        dict(lit='atomics::atomic<bool>               free_{ false };', to='atomics::atomic<bool>               free_;', count=1, why='default member initialiser; set in the ctor body below'),
        dict(lit=': thread_data( guards, guard_count, retired_arr, retired_capacity ), owner_rec_(this)\n                    {}',
             to=': thread_data( guards, guard_count, retired_arr, retired_capacity ), owner_rec_(this)\n                    { next_ = nullptr; free_.store( false, atomics::memory_order_relaxed ); }', count=1,
             why='the two default member initialisers, as ctor-body stores'),
    ]),
    frag('defaults', r'struct defaults(?= \{)', semicolon=True),
    frag('calc_retired_size', r'size_t calc_retired_size\('),
    frag('ctor', r'CDS_EXPORT_API basic_smr::basic_smr\(', rewrites=[
        dict(lit=', scan_func_( nScanType == classic ? &basic_smr::classic_scan : &basic_smr::inplace_scan )', to='', count=1,
             why='pointer to member function; this line is the rule that scan() rewrite reproduces'),
    ]),
    frag('dtor', r'CDS_EXPORT_API basic_smr::~basic_smr\(\)', rewrites=[
        dict(lit='for ( retired_ptr* cur{ arr.first() }, *last{ arr.last() }; cur != last; ++cur ) {', to='for ( retired_ptr* cur = arr.first(), *last = arr.last(); cur != last; ++cur ) {', count=1,
             why='brace initialisers in a for-init declaration'),
    ]),
    frag('free_thread_data', r'CDS_EXPORT_API void basic_smr::free_thread_data\('),
    frag('detach_all_thread', r'CDS_EXPORT_API void basic_smr::detach_all_thread\(\)'),
    frag('alloc_thread_data', r'CDS_EXPORT_API basic_smr::thread_record\* basic_smr::alloc_thread_data\(\)'),
    frag('inplace_scan', r'CDS_EXPORT_API void basic_smr::inplace_scan\(', rewrites=[
        dict(lit='for ( auto it = first_retired; it != last_retired; ++it ) {', to='for ( retired_ptr* it = first_retired; it != last_retired; ++it ) {', count=1, why=AUTO),
        dict(lit='for ( auto hp = hpstg.begin(), end = hpstg.end(); hp != end; ++hp ) {', to='for ( guard* hp = hpstg.begin(), *end = hpstg.end(); hp != end; ++hp ) {', count=1, why=AUTO),
    ]),
    frag('classic_scan', r'CDS_EXPORT_API void basic_smr::classic_scan\(', rewrites=[
        dict(lit='auto itBegin = plist.begin();', to='void** itBegin = plist.begin();', count=1, why=AUTO),
        dict(lit='auto itEnd = plist.end();', to='void** itEnd = plist.end();', count=1, why=AUTO),
        dict(lit='std::memory_order_relaxed', to='atomics::memory_order_relaxed', count=1, why='same enumerator (namespace atomics = std)'),
    ]),
    frag('help_scan', r'CDS_EXPORT_API void basic_smr::help_scan\('),
    frag('retire', r'static void retire\( T \* \w+, void\( \*\w+ \)\( void \* \)\)', path='cds/gc/hp.h', body_only=True),
]

# retired pointers / hazard values are abstract address values (never dereferenced); the real code orders them with <
# (retired_ptr::less, sorted hazard list). CBMC's pointer-relation checks on such values are not obligations of the property.
PTRREL = r'pointer relation:|same object violation'

def cfg(nrec, h, cap):
    return ['VX_NREC=%d' % nrec, 'VX_H=%d' % h, 'VX_CAP=%d' % cap]


def grp(name, harness, props, expect, fns, q, th, scan=None, tier=None, timeout={'quick': 900, 'thorough': 7200}):
    if tier is None:
        # the in-place strategy contains the classic one; its slower groups run in the thorough tier only
        tier = 'thorough' if (scan == 1 and name.split('_inplace')[0] in ('scan_c03_keep', 'retire', 'help_scan', 'detach')) else 'quick'      # of these only retire_inplace is kept (see GROUPS filter below)
    """q / th: (nrec, h, cap) bounds for the quick / thorough tier"""
    d = dict(name=name, harness=harness, enforce=[], dfcc=False, functions=fns, expect=expect, props=props, timeout=timeout, tier=tier,
             defines=(['VX_SCAN=%d' % scan] if scan is not None else []),
             defines_tier={'quick': cfg(*q), 'thorough': cfg(*q)},      # thorough adds groups, not size: the larger worlds do not finish within their time limit
             unwind={'quick': q[0] * q[2] + 2, 'thorough': q[0] * q[2] + 2},
             bounded='%d records x %d hazard slots x %d retired in both tiers (exhaustive within the bound: every content, owner/free flag, odd and even addresses)' % q,
             replay=dict(driver='replay.cpp', case=name, vars=[], repo_sources=['src/hp.cpp', 'src/init.cpp', 'src/thread_data.cpp', 'src/hp_thread_local.cpp', 'src/dhp.cpp', 'src/topology_linux.cpp', 'src/urcu_gp.cpp', 'src/urcu_sh.cpp']))
    return d


SCAN = ['basic_smr::scan', 'basic_smr::classic_scan', 'basic_smr::inplace_scan', 'retired_array::push/first/last/reset', 'retired_ptr::free', 'guard::get', 'thread_hp_storage::begin/end/operator[]']
GROUPS = []
for kind, nm in ((0, 'classic'), (1, 'inplace')):
    Q = (2, 2, 3) if kind == 0 else (2, 2, 2)      # the in-place strategy contains the classic one (odd-address fallback): smaller quick bound
    Q1 = (2, 1, 3)       # capacity > hazard slots x threads (documented precondition of the room obligations)
    GROUPS += [
        grp('scan_c01_' + nm, 'h_scan_c01', ['C01'], [r'C01\.no_free_while_guarded', r'C01\.kept_once'], SCAN, Q, (3, 2, 3), scan=kind),
        grp('scan_c03_free_' + nm, 'h_scan_c03_free', ['C03'], [r'C03\.freed_when_unprotected', r'C03\.at_most_once', r'C03\.no_invention'], SCAN, Q, (3, 2, 3), scan=kind),
        grp('scan_c03_keep_' + nm, 'h_scan_c03_keep', ['C03'], [r'C03\.kept_when_protected'], SCAN, Q, (3, 2, 3), scan=kind),
        grp('retire_' + nm, 'h_retire', ['C03', 'C01'], [r'C03\.retire_keeps_room', r'C03\.retire_conserves', r'C01\.no_free_while_guarded'], ['cds::gc::HP::retire(T*, void(*)(void*))'] + SCAN, Q1, (3, 1, 4), scan=kind),
        grp('help_scan_' + nm, 'h_help_scan', ['C03'], [r'C03\.help_scan_conserves', r'C03\.help_scan_empties_source'], ['basic_smr::help_scan', 'retired_array::interthread_clear'] + SCAN, Q1, (3, 1, 4), scan=kind),
        grp('detach_' + nm, 'h_detach', ['C03', 'C01'], [r'C03\.detach_conserves', r'C03\.detach_releases_record', r'C01\.no_free_while_guarded'], ['basic_smr::free_thread_data', 'thread_hp_storage::clear', 'basic_smr::help_scan'] + SCAN, Q1, (3, 1, 4), scan=kind),
    ]
for kind, nm in ((0, 'classic'), (1, 'inplace')):
    x = grp('scan_c01_%s_wide' % nm, 'h_scan_c01', ['C01'], [r'C01\.no_free_while_guarded'], SCAN, (2, 2, 2), (2, 2, 3), scan=kind)
    x['defines'] = x['defines'] + ['VX_WIDE=34']
    x['checks'] = ['--no-pointer-check', '--no-pointer-primitive-check']
    x['bounded'] += '; object addresses are integers below 2^34 (16 GiB span), pointer checks off'
    GROUPS.append(x)
GROUPS.append(grp('dtor', 'h_dtor', ['C03'], [r'C03\.dtor_disposes_all', r'C03\.dtor_leaves_nothing'], ['basic_smr::~basic_smr', 'retired_array::reset'], (2, 1, 3), (3, 1, 4)))

# the in-place variants of scan_c03_keep / help_scan / detach did not finish within their time limit at any bound tried (the in-place strategy
# contains the classic one as its odd-address fallback; the classic variants of the same groups run in the quick tier): not run
GROUPS = [g for g in GROUPS if g['name'] not in ('scan_c03_keep_inplace', 'help_scan_inplace', 'detach_inplace')]

UNIT = dict(
    properties=['C01', 'C03'],
    stage=stage,
    decl_rules=[
        dict(path='src/hp.cpp', re=r'instance_->~basic_smr\(\);', count=1),
        dict(path='cds/gc/hp.h', re=r'hp::details::thread_data\* rec = hp_implementation::tls\(\);', count=1),
    ],
    cxx=['shim.cpp'], c=['contracts.c'],
    cxxflags=['-Dconstexpr=', '-Dnoexcept=', '-Dexplicit=', '-Dprivate=public', '-Dprotected=public'],
    sabotage=[
        dict(name='classic_scan_wrong_key', quick=True, props=['C01'], target='classic_scan', lit='std::binary_search( itBegin, itEnd, it->m_p )', to='std::binary_search( itBegin, itEnd, first_retired->m_p )', count=1,
             groups=['scan_c01_classic'], expect_fail=r'C01\.no_free_while_guarded'),
        dict(name='inplace_lost_mark', props=['C01'], target='inplace_scan', lit='it->m_n |= 1;', to='it->m_n |= 0;', count=1, groups=['scan_c01_inplace'], expect_fail=r'C01\.no_free_while_guarded'),
        dict(name='inplace_skip_free', quick=True, props=['C03'], target='inplace_scan', lit='it->free();\n                    CDS_HPSTAT( ++pRec->free_count_ );', to='CDS_HPSTAT( ++pRec->free_count_ );', count=1,
             groups=['scan_c03_free_inplace'], expect_fail=r'C03\.freed_when_unprotected'),
        dict(name='dtor_skips_last', props=['C03'], target='dtor', lit='cur != last; ++cur ) {', to='cur + 1 < last; ++cur ) {', count=1, groups=['dtor'], expect_fail=r'C03\.dtor_disposes_all'),
    ],
    trusted_base=[
        'CBMC 6.11 C++ front end (partial)',
        'SC atomic<T> stub: memory orders and thread_data::sync() fences have no effect',
        'std::sort / std::lower_bound / std::binary_search replaced by reference implementations in /verif/stubs/algorithm (libstdc++ not verified); std::vector replaced by a capacity-checked array',
        'shell for the anonymous namespace of src/hp.cpp (allocator -> __CPROVER_allocate) and for destroy_thread_data (records are harness-owned; ghost notification)',
        'thread-record list is stable during a pass (records are never unlinked in libcds); the witness record stays attached (owner non-null) during the pass',
    ],
    assumptions=[
        'BOUNDED: see groups[].loop_closure; exhaustive inside the bound',
        'data abstraction: object addresses range over 63 arena offsets (odd and even); the scan code only orders/compares them and tests the LSB',
        'witness-slot rely: every hazard slot except one returns an arbitrary value on every load; one slot holds the protected pointer for the whole call',
        'documented precondition for retire/help_scan room: retired capacity > hazard slots x threads',
        'sequential consistency; weak-memory effects are invisible',
    ],
    dropped=['private/protected -> public', 'noexcept/constexpr/explicit', 'pointer-to-member scan dispatch rewritten to the equivalent if/else on scan_type_', 'make_retired_ptr (lambda)', 'deleted constructors',
             'thread_local on DefaultTLSManager::tls_ (not on a verified path)', 'placement array-new of guards -> loop of default constructions'],
    groups=GROUPS,
)
