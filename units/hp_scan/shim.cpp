// unit hp_scan — C++ side. Real text: cds/gc/details/retired_ptr.h, hp_common.h (shadow copies), class basic_smr
// (fragment of cds/gc/hp.h), the bodies of the basic_smr member functions (fragments of src/hp.cpp).
// Shell: what src/hp.cpp's anonymous namespace and the OS supply (allocator, destroy_thread_data) and the harness world.
#include <cds/details/defs.h>
extern "C" void* vx_nondet_ptr();
extern "C" void vx_destroy_record(void* rec, size_t retired_size);
extern "C" int vx_is_slot(const void* addr);
extern "C" uintptr_t vx_slot_value(const void* addr);
// every atomic load goes through this hook; loads of registered hazard slots return the ghost-chosen value
// (witness slot: the protected pointer, stable; any other slot: an arbitrary value on every load)
template <typename T> static inline T vx_loaded(const T* a, T v) { if (vx_is_slot((const void*)a)) return (T) vx_slot_value((const void*)a); return v; }
#define VX_ATOMIC_LOADED(a, v) vx_loaded(a, v)
#include <cds/algo/atomic.h>
#include <stdexcept>
#include <algorithm>
#include <vector>
#include <utility>
#include <cds/user_setup/cache_line.h>
#include <cds/details/throw_exception.h>
namespace cds { namespace gc { namespace hp { namespace common { class guard; } } } }
static inline void vx_construct_guards(cds::gc::hp::common::guard* arr, size_t n);
#include <cds/gc/details/hp_common.h>
static inline void vx_construct_guards(cds::gc::hp::common::guard* arr, size_t n) { for (size_t i = 0; i < n; ++i) { arr[i].clear(); arr[i].next_ = nullptr; } }

namespace cds { namespace gc { namespace hp { namespace details {
    enum scan_type { classic, inplace };
#include <basic_smr.inc>
    // ---- shell for the anonymous namespace of src/hp.cpp
    template <typename T> struct allocator {
        typedef T value_type;
        static T* allocate( size_t nCount ) { return reinterpret_cast<T*>( ::vx_alloc( sizeof( T ) * nCount )); }
        static void deallocate( T* p, size_t ) { ::vx_free( reinterpret_cast<void*>( p )); }
    };
#include <defaults.inc>
#include <calc_retired_size.inc>
    basic_smr* basic_smr::instance_ = nullptr;
    // records are owned by the harness world: destroy = ghost notification only (real one: ~thread_record + free)
    void basic_smr::destroy_thread_data(thread_record* pRec) { vx_destroy_record(pRec, pRec->retired_.size()); }
    basic_smr::thread_record* basic_smr::create_thread_data() { return nullptr; }
#include <ctor.inc>
#include <dtor.inc>
#include <free_thread_data.inc>
#include <detach_all_thread.inc>
#include <inplace_scan.inc>
#include <classic_scan.inc>
#include <help_scan.inc>
}}}}

using namespace cds::gc::hp::details;
typedef basic_smr::thread_record rec_t;
#ifndef VX_NREC
#define VX_NREC 2
#endif
#ifndef VX_H
#define VX_H 2
#endif
#ifndef VX_CAP
#define VX_CAP 3
#endif
extern "C" void vf_dispose(void* p);
extern "C" int vx_nondet_int();
extern "C" size_t vx_nondet_size();
extern "C" void vx_register_slot(const void* slot_addr, unsigned rec, unsigned k);
extern "C" void vx_world_built(void);
extern "C" void vx_pre_retired(unsigned rec, unsigned idx, void* p);
extern "C" void vx_post_retired(unsigned rec, unsigned idx, void* p);

struct World {
    guard g[VX_NREC][VX_H];
    cds::gc::details::retired_ptr r[VX_NREC][VX_CAP];
};

// builds a world of VX_NREC thread records (list order 0,1,..), owner/free flags and retired contents symbolic
#define BUILD_WORLD(SCAN) \
    World w; \
    basic_smr smr(VX_H, VX_NREC, VX_CAP, SCAN); \
    rec_t rec0(w.g[0], VX_H, w.r[0], VX_CAP); \
    rec_t rec1(w.g[1 % VX_NREC], VX_H, w.r[1 % VX_NREC], VX_CAP); \
    rec_t rec2(w.g[2 % VX_NREC], VX_H, w.r[2 % VX_NREC], VX_CAP); \
    rec_t* recs[3] = { &rec0, &rec1, &rec2 }; \
    for (unsigned i = 0; i < VX_NREC; ++i) { \
        recs[i]->next_ = (i + 1 < VX_NREC) ? recs[i + 1] : nullptr; \
        for (unsigned k = 0; k < VX_H; ++k) vx_register_slot(&w.g[i][k], i, k); \
    } \
    smr.thread_list_.store(recs[0], atomics::memory_order_relaxed);

static void fill_retired(rec_t* rec, unsigned ri, size_t n) {
    for (size_t j = 0; j < n; ++j) {
        void* p = vx_nondet_ptr();
        vx_pre_retired(ri, (unsigned)j, p);                 // ghost: records/constrains the retired set (distinct, non-null)
        cds::gc::details::retired_ptr rp(p, vf_dispose);
        rec->retired_.push(rp);
    }
}
static void report_retired(rec_t* rec, unsigned ri) {
    unsigned j = 0;
    for (cds::gc::details::retired_ptr* it = rec->retired_.first(); it != rec->retired_.last(); ++it, ++j) vx_post_retired(ri, j, it->m_p);
}

// scan by record 0 with n retired pointers; other records' owner flags arbitrary
extern "C" void w_hp_scan(int scan_kind, size_t n, unsigned witness_rec) {
    BUILD_WORLD(scan_kind == 0 ? classic : inplace)
    for (unsigned i = 1; i < VX_NREC; ++i) if (i != witness_rec && vx_nondet_int()) recs[i]->owner_rec_.store(nullptr, atomics::memory_order_relaxed);
    fill_retired(recs[0], 0, n);
    vx_world_built();
    smr.scan(recs[0]);
    report_retired(recs[0], 0);
    smr.thread_list_.store(nullptr, atomics::memory_order_relaxed);     // detach the world before ~basic_smr runs
}

// ---- retire(): body of cds::gc::HP::retire( T*, void(*)(void*)) (fragment of cds/gc/hp.h). Shell: hp_implementation
// = the world's singleton and the calling thread's record.
static basic_smr* vx_smr; static rec_t* vx_tls;
struct hp_implementation { static thread_data* tls() { return vx_tls; } static basic_smr& instance() { return *vx_smr; } };
namespace hp = cds::gc::hp;
template <typename T> static void vx_retire( T * p, void( *func )( void * ))
#include <retire.inc>

extern "C" void w_hp_retire(int scan_kind, size_t n, unsigned witness_rec) {
    BUILD_WORLD(scan_kind == 0 ? classic : inplace)
    vx_smr = &smr; vx_tls = recs[0];
    for (unsigned i = 1; i < VX_NREC; ++i) if (i != witness_rec && vx_nondet_int()) recs[i]->owner_rec_.store(nullptr, atomics::memory_order_relaxed);
    fill_retired(recs[0], 0, n);
    void* p = vx_nondet_ptr();
    vx_pre_retired(0, (unsigned)n, p);
    vx_world_built();
    vx_retire(p, vf_dispose);
    __CPROVER_assert(!recs[0]->retired_.full(), "C03.retire_keeps_room: after retire() the retired array is not full (the next retire() writes in bounds)");
    report_retired(recs[0], 0);
    smr.thread_list_.store(nullptr, atomics::memory_order_relaxed);
}

// ---- help_scan by record 0; records 1.. are adopted (owner == null, not free), owned by someone else, or free
extern "C" void w_hp_help_scan(int scan_kind, size_t n0, size_t n1, size_t n2) {
    BUILD_WORLD(scan_kind == 0 ? classic : inplace)
    size_t ns[3] = { n0, n1, n2 };
    int abandoned[3] = { 0, 0, 0 };
    for (unsigned i = 1; i < VX_NREC; ++i) {
        int st = vx_nondet_int();
        if (st == 0) { recs[i]->owner_rec_.store(nullptr, atomics::memory_order_relaxed); abandoned[i] = 1; }            // abandoned with retired data
        else if (st == 1) { recs[i]->owner_rec_.store(nullptr, atomics::memory_order_relaxed); recs[i]->free_.store(true, atomics::memory_order_relaxed); ns[i] = 0; }   // free record: empty by invariant
        // else: owned by a live thread
    }
    for (unsigned i = 0; i < VX_NREC; ++i) fill_retired(recs[i], i, ns[i]);
    vx_world_built();
    smr.help_scan(recs[0]);
    for (unsigned i = 0; i < VX_NREC; ++i) {
        if (abandoned[i]) {
            __CPROVER_assert(recs[i]->retired_.size() == 0, "C03.help_scan_empties_source: an adopted record's retired array is empty afterwards");
            __CPROVER_assert(recs[i]->free_.load(atomics::memory_order_relaxed), "C03.help_scan_marks_free: an adopted record is marked free");
        }
        report_retired(recs[i], i);
    }
    smr.thread_list_.store(nullptr, atomics::memory_order_relaxed);
}

// ---- ~basic_smr over records with arbitrary retired contents
extern "C" void w_hp_dtor(size_t n0, size_t n1, size_t n2) {
    World w;
    rec_t rec0(w.g[0], VX_H, w.r[0], VX_CAP);
    rec_t rec1(w.g[1 % VX_NREC], VX_H, w.r[1 % VX_NREC], VX_CAP);
    rec_t rec2(w.g[2 % VX_NREC], VX_H, w.r[2 % VX_NREC], VX_CAP);
    rec_t* recs[3] = { &rec0, &rec1, &rec2 };
    size_t ns[3] = { n0, n1, n2 };
    {
        basic_smr smr(VX_H, VX_NREC, VX_CAP, inplace);
        for (unsigned i = 0; i < VX_NREC; ++i) {
            recs[i]->next_ = (i + 1 < VX_NREC) ? recs[i + 1] : nullptr;
            recs[i]->owner_rec_.store(nullptr, atomics::memory_order_relaxed);      // all threads detached before destruction
            fill_retired(recs[i], i, ns[i]);
        }
        smr.thread_list_.store(recs[0], atomics::memory_order_relaxed);
        vx_world_built();
    }   // ~basic_smr runs here
    for (unsigned i = 0; i < VX_NREC; ++i) report_retired(recs[i], i);
}

// ---- free_thread_data (thread detach) of record 0
extern "C" void w_hp_detach(int scan_kind, size_t n0, unsigned witness_rec, int call_help_scan) {
    BUILD_WORLD(scan_kind == 0 ? classic : inplace)
    for (unsigned i = 1; i < VX_NREC; ++i) if (i != witness_rec && vx_nondet_int()) recs[i]->owner_rec_.store(nullptr, atomics::memory_order_relaxed);
    fill_retired(recs[0], 0, n0);
    vx_world_built();
    smr.free_thread_data(recs[0], call_help_scan != 0);
    __CPROVER_assert(recs[0]->owner_rec_.load(atomics::memory_order_relaxed) == nullptr, "C03.detach_releases_record: the record is released for adoption / reuse");
    report_retired(recs[0], 0);
    smr.thread_list_.store(nullptr, atomics::memory_order_relaxed);
}
