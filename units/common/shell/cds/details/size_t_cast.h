/* vx SHELL for cds/details/size_t_cast.h: the real header selects the unsigned type through a typedef member of an
   explicit class-template specialisation (size_t_unsigned<sizeof(size_t)>::type), which CBMC's C++ front end cannot
   resolve. On LP64 the selection is uint64_t (tied to the real header by a declaration rule); the cast itself is the
   same static_cast. */
#ifndef CDSLIB_DETAILS_SIZE_T_CAST_H
#define CDSLIB_DETAILS_SIZE_T_CAST_H
#include <cds/details/defs.h>
namespace cds { namespace details {
    static inline uint64_t size_t_cast( size_t n ) { return static_cast<uint64_t>( n ); }
}}
#endif
