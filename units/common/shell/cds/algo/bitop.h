/* vx SHELL for cds/algo/bitop.h.
   CBMC's C++ front end cannot compile static member functions of explicit class-template
   specialisations (BitOps<4>, BitOps<8>: "identifier ... was not found"), nor scopes named through a
   dependent typedef. So:
     * the BODIES of BitOps<4> and BitOps<8> are extracted from the real header on every run
       (fragments BitOps4.inc / BitOps8.inc, unmodified) and compiled as plain structs BitOps_4 / BitOps_8
       -> the mapping MSB->msb32, LSBnz->lsb64nz, ... is the real text and is verified;
     * the one-line template front functions  template<T> X(T a) { return BitOps<sizeof(T)>::X((TUInt)a); }
       are replaced by the overloads below: selection by sizeof(T) is ASSUMED (type selection only). */
#ifndef CDSLIB_BITOP_H
#define CDSLIB_BITOP_H
#include <cds/details/defs.h>
#include <cds/compiler/bitop.h>
namespace cds { namespace bitop {
    namespace details {
        struct BitOps_4
#include <BitOps4.inc>
        ;
        struct BitOps_8
#include <BitOps8.inc>
        ;
    }
#define VX_FRONT(R, NAME) \
    static inline R NAME( uint32_t a ) { return details::BitOps_4::NAME( a ); } \
    static inline R NAME( uint64_t a ) { return details::BitOps_8::NAME( a ); }
    VX_FRONT(int, LSB) VX_FRONT(int, LSBnz) VX_FRONT(int, MSB) VX_FRONT(int, MSBnz) VX_FRONT(int, SBC) VX_FRONT(int, ZBC)
#undef VX_FRONT
    static inline uint32_t RBO( uint32_t a ) { return details::BitOps_4::RBO( a ); }
    static inline uint64_t RBO( uint64_t a ) { return details::BitOps_8::RBO( a ); }
    static inline bool complement( uint32_t& a, int nBit ) { return details::BitOps_4::complement( a, nBit ); }
    static inline bool complement( uint64_t& a, int nBit ) { return details::BitOps_8::complement( a, nBit ); }
}}
#endif
