/* common C-side helpers for contract files */
#ifndef VX_C_H
#define VX_C_H
typedef unsigned long size_t;
typedef long ptrdiff_t;
typedef signed char int8_t; typedef short int16_t; typedef int int32_t; typedef long int64_t;
typedef unsigned char uint8_t; typedef unsigned short uint16_t; typedef unsigned int uint32_t; typedef unsigned long uint64_t;
typedef unsigned long uintptr_t; typedef long intptr_t;
typedef _Bool vx_bool;
#define NULL ((void*)0)
/* every harness ends with this: it must FAIL, otherwise the harness is vacuous */
#define VX_REACH_GUARD() __CPROVER_assert(0, "VX_REACH vacuity guard (must fail)")
#define BIT(x, i) (((x) >> (i)) & 1)
#endif
