// unit feldman_array — FeldmanHashSet multi-level array: C28 (inserting an absent hash never fails; equal hashes collide at the
// same slot) and the Feldman part of C17 (expanding a slot never loses the element that was in it).
// Real text (fragments): feldman_hashset::details::metrics, bitwise_compare, multilevel_array::traverse_data / traverse /
// expand_slot (both) (cds/intrusive/details/feldman_hashset_base.h); FeldmanHashSet::insert(val,f),
// do_update, search, do_erase (cds/intrusive/impl/feldman_hashset.h); the real splitters (cds/algo/split_bitstring.h).
// Shell: non-template classes standing in for multilevel_array<T,Traits> and FeldmanHashSet<GC,T,Traits> that supply the
// typedefs and members the fragments refer to; array nodes are named objects with an explicit slot array.
#include <cds/details/defs.h>
#include <cds/algo/atomic.h>
#include <cds/details/marked_ptr.h>
#include <cds/algo/split_bitstring.h>
#include <cds/algo/backoff_strategy.h>
namespace std { template <typename A, typename B> struct pair { A first; B second; pair( A a, B b ) : first( a ), second( b ) {} };
    template <typename A, typename B> pair<A, B> make_pair( A a, B b ) { return pair<A, B>( a, b ); } }
extern "C" int memcmp( const void*, const void*, size_t );
extern "C" void vx_alloc_event( int op );        // 1 array node allocated, 2 array node freed
extern "C" void vx_retired( const void* p );     // item handed to gc::retire
extern "C" void vx_verify_failed( void );        // CDS_VERIFY saw false
#ifndef VX_NODE_MAX
#define VX_NODE_MAX 16      /* (fixed: the slot reset in alloc_array_node is written out for 16) slots per node object (head and array nodes share one object type) */
#endif

namespace cds { namespace intrusive { namespace feldman_hashset {
#include <bitwise_compare.inc>
namespace details {
#include <metrics.inc>
}}}}

#if VX_HASH == 16
typedef unsigned short vx_hash_t;                                       // select_splitter<unsigned short, 2> = number_splitter
typedef cds::algo::number_splitter< unsigned short > vx_splitter; typedef unsigned short vx_slot_t;
#elif VX_HASH == 1
struct vx_hash_t { uint8_t b[1]; };                                     // a 1-byte byte-string hash
typedef cds::algo::split_bitstring< vx_hash_t, 1 > vx_splitter; typedef unsigned vx_slot_t;
#elif VX_HASH == 2
struct vx_hash_t { uint8_t b[2]; };                                     // a 2-byte byte-string hash: select_splitter's primary template
typedef cds::algo::split_bitstring< vx_hash_t, 2 > vx_splitter; typedef unsigned vx_slot_t;
#endif
struct vx_item { vx_hash_t hash; int payload; };
typedef cds::intrusive::feldman_hashset::details::metrics vx_metrics_t;

void* vx_next_node(); void* vx_node_of( void* p ); void* vx_proxy_of( void* p );
struct multilevel_array {
    typedef vx_item value_type;
    struct memory_model {
        static const atomics::memory_order memory_order_relaxed = atomics::memory_order_relaxed, memory_order_acquire = atomics::memory_order_acquire,
                                           memory_order_release = atomics::memory_order_release; };
    typedef cds::backoff::empty back_off;
    struct stat { void onSlotConverting() {} void onExpandNodeFailed() {} void onExpandNodeSuccess() {} void onArrayNodeCreated() {} void onSlotChanged() {} void onInsertFailed() {} void onInsertSuccess() {}
                  void onInsertRetry() {} void height( size_t ) {} void onUpdateExisting() {} void onUpdateRetry() {} void onUpdateFailed() {} void onUpdateNew() {} void onFindSuccess() {} void onFindFailed() {}
                  void onEraseSuccess() {} void onEraseRetry() {} void onEraseFailed() {} };
    struct hash_accessor { vx_hash_t& operator()( vx_item& v ) const { return v.hash; } };   // non-const: the front end rejects "const struct&" returns
    typedef vx_hash_t hash_type;
    static vx_hash_t& vx_acc( vx_item& v ) { hash_accessor a; return a( v ); }
    static void vx_verify( bool b ) { if ( !b ) vx_verify_failed(); }
    typedef cds::intrusive::feldman_hashset::bitwise_compare< hash_type > hash_comparator;
    typedef vx_splitter hash_splitter;
    enum node_flags { flag_array_converting = 1, flag_array_node = 2 };      // pinned by a declaration rule
    typedef cds::details::marked_ptr< value_type, 3 > node_ptr;
    typedef vx_atomic_marked< value_type, 3 > atomic_node_ptr;
    // shell form of struct array_node (real: const members, nodes[1] as a trailing array in one raw allocation)
    struct array_node { array_node * pParent; size_t idxParent; atomic_node_ptr nodes[VX_NODE_MAX]; };
#include <traverse_data.inc>
    vx_metrics_t m_Metrics;
    array_node * m_Head;
    mutable stat m_Stat;
    vx_metrics_t metrics() const { return m_Metrics; }   // by value: the front end rejects "const struct&" returns from const members
    array_node * head() const { return m_Head; }
    stat& stats() const { return m_Stat; }
    size_t head_size() const { return m_Metrics.head_node_size; }
    size_t array_node_size() const { return m_Metrics.array_node_size; }
    // shell allocation: array nodes are the named objects below
    static array_node * alloc_array_node( size_t nSize, array_node * pParent, size_t idxParent ) {
        array_node * p = static_cast<array_node*>( vx_next_node());
        // the node objects are reset (every slot null, unmarked) by vx_reset_nodes() at the start and are never handed out twice
        p->pParent = pParent; p->idxParent = idxParent;
        vx_alloc_event( 1 );
        return p;
    }
    array_node * alloc_array_node( array_node * pParent, size_t idxParent ) const { return alloc_array_node( array_node_size(), pParent, idxParent ); }
    static void free_array_node( array_node *, size_t ) { vx_alloc_event( 2 ); }
    // shell: real to_array/to_node convert through `union converter { value_type* pData; array_node* pArr; }` (declaration rules)
    // An array node is named, inside a slot, by a value_type* that is never dereferenced as a value; here that name is the address of
    // a proxy item paired one-to-one with the node object (to_array( to_node( p )) == p, distinct from every real item's address).
    static array_node * to_array( value_type * p ) { return static_cast<array_node*>( vx_node_of( p )); }
    static value_type * to_node( array_node * p ) { return static_cast<value_type*>( vx_proxy_of( p )); }
#include <traverse.inc>
#include <expand_slot_pos.inc>
#include <expand_slot.inc>
};
static multilevel_array::array_node vx_n0, vx_n1, vx_n2, vx_n3, vx_n4, vx_n5, vx_n6, vx_n7;
static unsigned vx_used;
#ifndef VX_NPOOL
#define VX_NPOOL 8          /* node objects in use (<= 8): the head node plus one per level a bounded scenario can create */
#endif
static vx_item vx_p0, vx_p1, vx_p2, vx_p3, vx_p4, vx_p5, vx_p6, vx_p7;
#define VX_SEL( x, k, A, B ) (( VX_NPOOL > k + 1 && !( x )) ? ( B ) : ( A ))
static multilevel_array::array_node * vx_node( unsigned i ) {
    return VX_SEL( i == 0, 0, &vx_n0, VX_SEL( i == 1, 1, &vx_n1, VX_SEL( i == 2, 2, &vx_n2, VX_SEL( i == 3, 3, &vx_n3, VX_SEL( i == 4, 4, &vx_n4, VX_SEL( i == 5, 5, &vx_n5, VX_SEL( i == 6, 6, &vx_n6, &vx_n7 )))))));
}
extern "C" void vx_pool_exhausted( void );
void* vx_next_node() { if ( vx_used >= VX_NPOOL ) vx_pool_exhausted(); return vx_node( vx_used++ ); }
#define VX_Z( n, i ) n.nodes[i].m_v.m_ptr = nullptr; n.nodes[i].m_v.m_bits = 0;
#define VX_ZN( n ) n.pParent = nullptr; n.idxParent = 0; VX_Z( n, 0 ) VX_Z( n, 1 ) VX_Z( n, 2 ) VX_Z( n, 3 ) VX_Z( n, 4 ) VX_Z( n, 5 ) VX_Z( n, 6 ) VX_Z( n, 7 ) VX_Z( n, 8 ) VX_Z( n, 9 ) VX_Z( n, 10 ) VX_Z( n, 11 ) VX_Z( n, 12 ) VX_Z( n, 13 ) VX_Z( n, 14 ) VX_Z( n, 15 )
static void vx_reset_nodes() { VX_ZN( vx_n0 ) VX_ZN( vx_n1 ) VX_ZN( vx_n2 ) VX_ZN( vx_n3 ) VX_ZN( vx_n4 ) VX_ZN( vx_n5 ) VX_ZN( vx_n6 ) VX_ZN( vx_n7 ) vx_used = 0; }
#define VX_V( x ) ((void*) &( x ))
void* vx_node_of( void* p ) {
    return VX_SEL( p == VX_V( vx_p0 ), 0, VX_V( vx_n0 ), VX_SEL( p == VX_V( vx_p1 ), 1, VX_V( vx_n1 ), VX_SEL( p == VX_V( vx_p2 ), 2, VX_V( vx_n2 ), VX_SEL( p == VX_V( vx_p3 ), 3, VX_V( vx_n3 ),
           VX_SEL( p == VX_V( vx_p4 ), 4, VX_V( vx_n4 ), VX_SEL( p == VX_V( vx_p5 ), 5, VX_V( vx_n5 ), VX_SEL( p == VX_V( vx_p6 ), 6, VX_V( vx_n6 ), VX_V( vx_n7 ))))))));
}
void* vx_proxy_of( void* p ) {
    return VX_SEL( p == VX_V( vx_n0 ), 0, VX_V( vx_p0 ), VX_SEL( p == VX_V( vx_n1 ), 1, VX_V( vx_p1 ), VX_SEL( p == VX_V( vx_n2 ), 2, VX_V( vx_p2 ), VX_SEL( p == VX_V( vx_n3 ), 3, VX_V( vx_p3 ),
           VX_SEL( p == VX_V( vx_n4 ), 4, VX_V( vx_p4 ), VX_SEL( p == VX_V( vx_n5 ), 5, VX_V( vx_p5 ), VX_SEL( p == VX_V( vx_n6 ), 6, VX_V( vx_p6 ), VX_V( vx_p7 ))))))));
}

struct vx_item_counter { size_t n; void operator++() { ++n; } void operator--() { --n; } size_t value() const { return n; } };
struct vx_guard_stub { multilevel_array::node_ptr vx_protect( multilevel_array::atomic_node_ptr& a ) { return a.load( atomics::memory_order_acquire ); } void assign( size_t, void* ) {} };
struct shell_fset : public multilevel_array {
    typedef multilevel_array base_class;
    vx_item_counter m_ItemCounter;
#include <insert.inc>
#include <do_update.inc>
#include <search.inc>
#include <do_erase.inc>
};

static shell_fset g_s; static vx_item vx_i0, vx_i1, vx_i2, vx_i3;
static inline vx_item* ITP( unsigned k ) { return k == 0 ? &vx_i0 : k == 1 ? &vx_i1 : k == 2 ? &vx_i2 : &vx_i3; }
#define IT( k ) ( *ITP( k ))
static inline int IDX( vx_item* p ) { return p == &vx_i0 ? 0 : p == &vx_i1 ? 1 : p == &vx_i2 ? 2 : p == &vx_i3 ? 3 : p ? 99 : -1; }
struct vx_nop { void operator()( vx_item& ) const {} void operator()( vx_item&, vx_item* ) const {} };
struct vx_true { bool operator()( vx_item const& ) const { return true; } };
#if VX_HASH == 16
static inline vx_hash_t mk( unsigned h ) { return (vx_hash_t) h; }
#elif VX_HASH == 1
static inline vx_hash_t mk( unsigned h ) { vx_hash_t r; r.b[0] = (uint8_t) h; return r; }
#else
static inline vx_hash_t mk( unsigned h ) { vx_hash_t r; r.b[0] = (uint8_t) h; r.b[1] = (uint8_t)( h >> 8 ); return r; }
#endif
extern "C" {
void w_init( size_t head_bits, size_t array_bits, size_t* out4 ) {
    g_s.m_Metrics = cds::intrusive::feldman_hashset::details::metrics::make( head_bits, array_bits, sizeof( vx_hash_t ));   // what multilevel_array's ctor does (declaration rule)
    out4[0] = g_s.m_Metrics.head_node_size; out4[1] = g_s.m_Metrics.head_node_size_log; out4[2] = g_s.m_Metrics.array_node_size; out4[3] = g_s.m_Metrics.array_node_size_log;
    vx_reset_nodes();
    g_s.m_Head = multilevel_array::alloc_array_node( g_s.head_size(), nullptr, 0 );
    g_s.m_ItemCounter.n = 0;
}
bool w_insert( unsigned k, unsigned hash ) { IT( k ).hash = mk( hash ); vx_nop f; return g_s.insert<vx_nop>( IT( k ), f ); }
int w_update( unsigned k, unsigned hash, bool bInsert, bool* second ) { IT( k ).hash = mk( hash ); vx_nop f; std::pair<bool, bool> r = g_s.do_update<vx_nop>( IT( k ), f, bInsert ); *second = r.second; return r.first; }
int w_find( unsigned hash ) { vx_guard_stub g; vx_hash_t h = mk( hash ); vx_item* p = g_s.search( h, g ); return IDX( p ); }
int w_erase( unsigned hash ) { vx_guard_stub g; vx_hash_t h = mk( hash ); vx_true t; vx_item* p = g_s.do_erase<vx_true>( h, g, t ); return IDX( p ); }
size_t w_size( void ) { return g_s.m_ItemCounter.value(); }
unsigned w_nodes_used( void ) { return vx_used; }
const void* w_item( unsigned k ) { return &IT( k ); }

// expand_slot on a symbolic position: parent node object n1, slot idx holds item 0 (bits 0); the position's splitter stands after the head cut and `level` array cuts
static multilevel_array::array_node* vx_child;
// slot i of the array node expand_slot created: 0 empty, 1 holds item 0 unmarked, 2 anything else
int w_child_slot( size_t i ) { multilevel_array::node_ptr x = vx_child->nodes[i].load( atomics::memory_order_relaxed ); return ( !x.ptr() && !x.bits()) ? 0 : ( x.ptr() == &vx_i0 && x.bits() == 0 ) ? 1 : 2; }
bool w_has_child( void ) { return vx_child != nullptr; }
bool w_expand_slot( size_t idx, unsigned hash, unsigned level, bool env_changes_slot, size_t* off, int* new_bits, const void** child_parent, size_t* child_idxparent ) {
    vx_i0.hash = mk( hash );
    multilevel_array::array_node* par = vx_node( 1 ); vx_used = 2;
    par->nodes[idx].store( multilevel_array::node_ptr( &vx_i0 ), atomics::memory_order_relaxed );
    multilevel_array::traverse_data pos( vx_i0.hash, g_s );
    // the position after `level` array levels below the head: what traverse() leaves behind (head cut by reset(), one cut per level)
    for ( unsigned l = 0; l < level; ++l ) pos.splitter.cut( static_cast<unsigned>( g_s.metrics().array_node_size_log ));
    pos.pArr = par; pos.nSlot = (vx_slot_t) idx; *off = pos.splitter.bit_offset();
    multilevel_array::node_ptr cur( &vx_i0 );
    if ( env_changes_slot ) par->nodes[idx].store( multilevel_array::node_ptr( &vx_i1 ), atomics::memory_order_relaxed );   // another thread replaced / converted the slot first
    bool r = g_s.expand_slot( pos, cur );
    multilevel_array::node_ptr s = par->nodes[idx].load( atomics::memory_order_relaxed );
    *new_bits = (int) s.bits(); *child_parent = nullptr; *child_idxparent = 0; vx_child = nullptr;
    if ( s.bits() == multilevel_array::flag_array_node ) {
        vx_child = multilevel_array::to_array( s.ptr());
        *child_parent = vx_child->pParent == par ? (const void*) &vx_i0 : nullptr; *child_idxparent = vx_child->idxParent;
    }
    else if ( s.ptr() == &vx_i1 && s.bits() == 0 ) *new_bits = 100;   // unchanged foreign content
    return r;
}
}
