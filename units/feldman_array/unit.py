# unit feldman_array — FeldmanHashSet multi-level array (C28: inserting an absent hash never fails; C17: expand never loses an element)
B = 'cds/intrusive/details/feldman_hashset_base.h'
I = 'cds/intrusive/impl/feldman_hashset.h'
ACC = dict(re=r'hash_accessor\(\)\(\s*(\*?[\w.]+(?:\(\))?)\s*\)', to=r'vx_acc( \1 )', why='functor temporary applied in one expression (T()(x)) crashes the front end; vx_acc(x) builds the same functor object and applies it')
PROT = 'lambda (unsupported); Guard::protect returns the value it loaded from the slot once it is published (the hazard-pointer protocol is the subject of C01/C02)'


def fb(name, anchor, rewrites=None, **kw):
    d = dict(kind='fragment', path=B, name=name, anchor=anchor, rewrites=rewrites or [])
    d.update(kw)
    return d


BASE = dict(lit='base_class::', to='multilevel_array::', count='1+', why='a typedef name used as a scope is not resolved by the front end; base_class is the multilevel_array base (declaration rule)')


def fi(name, anchor, rewrites=None, **kw):
    d = dict(kind='fragment', path=I, name=name, anchor=anchor, rewrites=[BASE] + (rewrites or []))
    d.update(kw)
    return d


def one(x, **kw):
    d = dict(x)
    d.update(kw)
    return d


stage = [
    dict(kind='shadow', path='cds/algo/split_bitstring.h', rewrites=[
        dict(lit='return count ? cut( count ) : 0;', to='if ( count ) return cut( count ); return 0;', count=3,
             why='CBMC C++ front end types `c ? f() : 0` as int; the if-form is the same C++ semantics')]),
    dict(kind='verbatim', path='cds/algo/base.h'),
    fb('metrics', r'struct metrics(?= \{)', semicolon=True),
    fb('bitwise_compare', r'template <typename T>\s*struct bitwise_compare', semicolon=True),
    fb('traverse_data', r'struct traverse_data(?= \{)', semicolon=True, rewrites=[
        dict(lit='typename hash_splitter::uint_type nSlot;', to='vx_slot_t nSlot;', count=1, why='a typedef name used as a scope is not resolved by the front end; vx_slot_t is the uint_type of the chosen splitter (static_assert-checked in the native replay build)')]),
    fb('traverse', r'node_ptr traverse\(traverse_data& \w+\)'),
    fb('expand_slot_pos', r'bool expand_slot\( traverse_data& \w+, node_ptr \w+\)'),
    fb('expand_slot', r'bool expand_slot\(array_node \* \w+, size_t \w+, node_ptr \w+, size_t \w+\)', rewrites=[
        one(ACC, count=1),
        dict(lit='typename hash_splitter::uint_type idx = hash_splitter(', to='hash_splitter vx_sp(', count=1, why='temporary splitter used in one expression -> named object, then the same cut (next rule)'),
        dict(re=r', nOffset \)\.cut\(\s*static_cast<unsigned>\( m_Metrics\.array_node_size_log \)\);', to=', nOffset ); vx_slot_t idx = vx_sp.cut( static_cast<unsigned>( m_Metrics.array_node_size_log ));', count=1, why='same'),
        dict(lit='CDS_VERIFY(', to='vx_verify(', count=1, why='CDS_VERIFY evaluates its argument in release builds; the shell reports a false result to the ghost'),
    ]),
    fi('insert', r'template <typename Func>\s*bool insert\( value_type& \w+, Func \w+ \)', rewrites=[
        one(ACC, count=2),
        dict(lit='typename gc::template GuardArray<2> guards;', to='vx_guard_stub guards;', count=1, why='GC guard array -> shell (hazard-pointer protocol is C01/C02)'),
        dict(lit='guards.protect( 0, pos.pArr->nodes[pos.nSlot], []( node_ptr p ) -> value_type* { return p.ptr(); })', to='guards.vx_protect( pos.pArr->nodes[pos.nSlot] )', count=1, why=PROT),
    ]),
    fi('do_update', r'template <typename Func>\s*std::pair<bool, bool> do_update\( value_type& \w+, Func \w+, bool \w+ = true \)', rewrites=[
        one(ACC, count=2),
        dict(lit='typename gc::template GuardArray<2> guards;', to='vx_guard_stub guards;', count=1, why='GC guard array -> shell'),
        dict(lit='guards.protect( 0, pos.pArr->nodes[pos.nSlot], []( node_ptr p ) -> value_type* { return p.ptr(); })', to='guards.vx_protect( pos.pArr->nodes[pos.nSlot] )', count=1, why=PROT),
        dict(lit='gc::template retire<disposer>( slot.ptr());', to='vx_retired( slot.ptr());', count=1, why='GC retire -> ghost notification'),
    ]),
    fi('search', r'value_type \* search\( hash_type const& \w+, typename gc::Guard& \w+ \)', rewrites=[
        one(ACC, count=1),
        dict(lit='typename gc::Guard& guard', to='vx_guard_stub& guard', count=1, why='GC guard -> shell'),
        dict(lit='guard.protect( pos.pArr->nodes[pos.nSlot], []( node_ptr p ) -> value_type* { return p.ptr(); })', to='guard.vx_protect( pos.pArr->nodes[pos.nSlot] )', count=1, why=PROT),
    ]),
    fi('do_erase', r'template <typename Predicate>\s*value_type \* do_erase\( hash_type const& \w+, typename gc::Guard& \w+, Predicate \w+ \)', rewrites=[
        one(ACC, count=1),
        dict(lit='typename gc::Guard& guard', to='vx_guard_stub& guard', count=1, why='GC guard -> shell'),
        dict(lit='guard.protect( pos.pArr->nodes[pos.nSlot], []( node_ptr p ) -> value_type* { return p.ptr(); })', to='guard.vx_protect( pos.pArr->nodes[pos.nSlot] )', count=1, why=PROT),
        dict(lit='gc::template retire<disposer>( slot.ptr());', to='vx_retired( slot.ptr());', count=1, why='GC retire -> ghost notification'),
    ]),
]


def levels(hv, ab):
    hbits = 8 if hv == 1 else 16
    head = 4 + (hbits - 4) % ab
    return (hbits - head) // ab


def G(name, harness, props, expect, fns, cfgs=((16, None),), timeout={'quick': 900, 'thorough': 7200}, tier='quick', extra_nodes=0, **kw):
    """cfgs: (hash variant, array bits or None for symbolic). Loop bounds follow from the layout: at most levels+1 iterations of traverse / of the retry loops"""
    out = []
    for hv, ab in cfgs:
        nm = '%s_h%d' % (name, hv) + ('_a%d' % ab if ab is not None else '')
        lv = levels(hv, ab) if ab is not None else levels(hv, 2)
        d = dict(name=nm, harness=harness, enforce=[], dfcc=False, functions=fns, expect=expect, props=props, timeout=timeout, tier=tier, unwind=lv + 2, unwindset={'h_expand_slot.0': 17, 'h_insert_triple.0': 4, 'h_insert_triple.1': 4, 'h_insert_triple.2': 4, 'h_insert_triple.3': 4}, object_bits=12,
                 defines=['VX_HASH=%d' % hv, 'VX_NPOOL=%d' % min(8, max(3, lv + 1 + extra_nodes))] + (['VX_AB=%d' % ab] if ab is not None else []),
                 replay=dict(driver='replay.cpp', case=nm, vars=['head_bits', 'array_bits', 'h0', 'h1', 'h2'], repo_sources=RS))
        d.update(kw)
        out.append(d)
    return out


RS = ['src/hp.cpp', 'src/init.cpp', 'src/thread_data.cpp', 'src/hp_thread_local.cpp', 'src/dhp.cpp', 'src/topology_linux.cpp', 'src/urcu_gp.cpp', 'src/urcu_sh.cpp']
INS = ['FeldmanHashSet::insert(val, f)', 'FeldmanHashSet::search', 'multilevel_array::traverse', 'multilevel_array::expand_slot (both overloads)', 'traverse_data::reset', 'metrics::make', 'bitwise_compare',
       'number_splitter<unsigned short>::cut/eos/bit_offset | split_bitstring<2 bytes>::cut/eos/bit_offset']
BOUND = ('hash width 8 bits (split_bitstring over 1 byte) or 16 bits (number_splitter<unsigned short>, split_bitstring over 2 bytes); every configuration whose normalised head node has <= 16 slots and array nodes <= 16 slots '
         '(head_bits and array_bits symbolic over all of size_t before normalisation); %s; single thread')
GROUPS = (
    G('insert_pair', 'h_insert_pair', ['C28', 'C17'], [r'C28\.insert_absent_succeeds', r'C28\.insert_present_fails', r'C17\.no_element_lost', r'C17\.size'], INS, cfgs=((1, 2), (1, 4)),
      bounded=BOUND % 'two inserts with symbolic 8-bit hashes (the second may share any prefix with the first, or be equal), then lookups')
    + G('insert_pair', 'h_insert_pair', ['C28', 'C17'], [r'C28\.insert_absent_succeeds', r'C28\.insert_present_fails', r'C17\.no_element_lost', r'C17\.size'], INS, cfgs=((16, 4), (16, 3), (2, 4)), tier='thorough',      # (16, 2): six levels, formula beyond the memory limit - not run
        bounded=BOUND % 'two inserts with symbolic 16-bit hashes, then lookups')
    + G('insert_triple', 'h_insert_triple', ['C28', 'C17'], [r'C28\.insert_absent_succeeds', r'C17\.no_element_lost'], INS, cfgs=((1, 2), (1, 4)), tier='thorough', extra_nodes=1,
        bounded=BOUND % 'three inserts with symbolic 8-bit hashes, then lookups')
    + G('expand_slot', 'h_expand_slot', ['C17', 'C28'], [r'C17\.expand_keeps_element', r'C17\.expand_links_child', r'C28\.expand_index', r'C17\.expand_fail_no_leak'],
        ['multilevel_array::expand_slot (both overloads)'], cfgs=((16, None), (2, None), (1, None)),
        bounded=BOUND % 'one expand_slot call on a symbolic slot index, symbolic level, symbolic array-node width and symbolic hash; with and without another thread having changed the slot first')
    + G('update_erase', 'h_update_erase', ['C17', 'C28'], [r'C17\.update_', r'C17\.erase_'], ['FeldmanHashSet::do_update', 'FeldmanHashSet::do_erase'] + INS, cfgs=((1, 2), (1, 4)), tier='thorough', extra_nodes=1,
        bounded=BOUND % 'insert, update (insert-or-replace), erase and re-insert with symbolic 8-bit hashes')
)

UNIT = dict(
    properties=['C28', 'C17'],
    stage=stage,
    decl_rules=[
        dict(path=B, re=r'flag_array_converting = 1,[^\n]*\n\s*flag_array_node = 2', count=1),
        dict(path=B, re=r'typedef cds::details::marked_ptr< value_type, 3 > node_ptr;', count=1),
        dict(path=B, re=r'array_node \* const\s+pParent;[^\n]*\n\s*size_t const\s+idxParent;[^\n]*\n\s*atomic_node_ptr\s+nodes\[1\];', count=1),
        dict(path=B, re=r'm_Metrics\(feldman_hashset::details::metrics::make\( head_bits, array_bits, c_hash_size \)\)\s*, m_Head\( alloc_head_node\(\)\)', count=1),
        dict(path=B, re=r'return alloc_array_node\(head_size\(\), nullptr, 0\);', count=1),
        dict(path=I, re=r'typedef feldman_hashset::multilevel_array<T, Traits> base_class;', count=1),
        dict(path=B, re=r'return converter\(p\)\.pArr;', count=1),
        dict(path=B, re=r'return converter\(p\)\.pData;', count=1),
        dict(path=B, re=r'new \(pNode->nodes\) atomic_node_ptr\[nSize\];', count=1),
        dict(path='cds/algo/split_bitstring.h', re=r'CDS_SELECT_NUMBER_SPLITTER\( unsigned short \);', count=1),
        dict(path=I, re=r'return insert\( val, \[\]\( value_type& \) \{\} \);', count=1),
    ],
    cxx=['shim.cpp'], c=['contracts.c'],
    cxxflags=['-Dconstexpr=', '-Dnoexcept=', '-Dexplicit=', '-Dprivate=public', '-Dprotected=public', '-I/verif/units/feldman_array/shell'],
    sabotage=[
        dict(name='insert_expands_only_with_spare_bits', quick=True, props=['C28'], target='insert', lit='if ( !pos.splitter.eos()) {', to='if ( pos.splitter.rest_count() > multilevel_array::metrics().array_node_size_log ) {', count=1,
             groups=['insert_pair_h1_a2'], expect_fail=r'C28\.insert_absent_succeeds'),
        dict(name='expand_slot_wrong_offset', quick=True, props=['C17'], target='expand_slot_pos', lit='pos.splitter.bit_offset()', to='pos.splitter.bit_offset() - 1', count=1,
             groups=['expand_slot_h16'], expect_fail=r'C28\.expand_index'),
        dict(name='traverse_reuses_slot_index', props=['C28', 'C17'], target='traverse', lit='pos.nSlot = pos.splitter.cut( static_cast<unsigned>( metrics().array_node_size_log ));', to='pos.splitter.cut( static_cast<unsigned>( metrics().array_node_size_log ));', count=1,
             groups=['insert_pair_h1_a2'], expect_fail=r'C17\.no_element_lost|C28\.'),
    ],
    trusted_base=[
        'CBMC 6.11 C++ front end (partial)',
        'cds::details::marked_ptr / atomic<marked_ptr> replaced by a stub with the same interface (mark bits beside the pointer instead of packed into it): units/feldman_array/shell/cds/details/marked_ptr.h',
        'shell classes for multilevel_array<T,Traits> and FeldmanHashSet<GC,T,Traits> (typedefs, metrics()/head()/stats(), node allocation from named objects with an explicit slot array; to_array/to_node: the union-based pointer conversion (constructors of unions are not supported by the front end) is a reinterpret_cast); tied to the real declarations by declaration rules',
        'Guard::protect -> one load of the slot; gc::retire -> ghost notification (hazard-pointer reclamation is C01/C02)',
        'SC atomics; single-threaded sequences (the one interference case is "the slot changed before expand_slot\'s first CAS")',
    ],
    assumptions=['BOUNDED: 16-bit hashes, node sizes <= 16 slots, <= 3 inserts (see groups[].loop_closure); the cut contract itself is proved for every width in unit bits and the addressing lemmas for 64-bit hashes in unit feldman_addr',
                 'release build (assert is a no-op, as in the baseline build)'],
    dropped=['template class context', 'private/protected -> public', 'constexpr/noexcept/explicit', 'lambda passed to Guard::protect', 'back-off and statistics calls (empty policies)'],
    groups=GROUPS,
)
