/* vx stub for cds/details/marked_ptr.h — ENVIRONMENT, not subject.
   The real class packs the mark bits into the low bits of the pointer through a union pointer<->integer cast and offers its
   binary operators as in-class friends; CBMC's C++ front end resolves neither the static to_int/to_ptr overloads nor in-class
   friend operators. This stub keeps the same interface (ptr(), bits(), |, |=, ==, !=, two-argument ctor) with the bits held
   beside the pointer; atomic< marked_ptr > is one atomic word pair (sequentially consistent, same hooks as the atomic stub). */
#ifndef VX_STUB_MARKED_PTR_H
#define VX_STUB_MARKED_PTR_H
#include <cds/algo/atomic.h>
namespace cds { namespace details {
    template <typename T, int Bitmask>
    class marked_ptr {
    public:
        T * m_ptr; unsigned char m_bits;
        typedef T value_type; typedef T * pointer_type;
        marked_ptr() : m_ptr( nullptr ), m_bits( 0 ) {}
        marked_ptr( T * p ) : m_ptr( p ), m_bits( 0 ) {}
        marked_ptr( T * p, int nMask ) : m_ptr( p ), m_bits( (unsigned char)( nMask & Bitmask )) {}
        T * ptr() const { return m_ptr; }
        uintptr_t bits() const { return m_bits; }
        T * operator ->() const { return m_ptr; }
        marked_ptr& operator |=( int nBits ) { m_bits = (unsigned char)( m_bits | ( nBits & Bitmask )); return *this; }
        marked_ptr operator |( int nBits ) const { marked_ptr p( *this ); p |= nBits; return p; }
        bool operator ==( marked_ptr const& p ) const { return m_ptr == p.m_ptr && m_bits == p.m_bits; }
        bool operator !=( marked_ptr const& p ) const { return !( m_ptr == p.m_ptr && m_bits == p.m_bits ); }
    };
}}
template <typename T, int Bitmask>
struct vx_atomic_marked {
    typedef cds::details::marked_ptr<T, Bitmask> marked_ptr;
    marked_ptr m_v;
    vx_atomic_marked() {}
    marked_ptr load( atomics::memory_order = atomics::memory_order_seq_cst ) const { VX_ATOMIC_ENV( this ); return m_v; }
    void store( marked_ptr v, atomics::memory_order = atomics::memory_order_seq_cst ) { m_v = v; }
    bool compare_exchange_strong( marked_ptr& expected, marked_ptr desired, atomics::memory_order, atomics::memory_order ) {
        VX_ATOMIC_ENV( this );
        if ( m_v == expected ) { m_v = desired; return true; }
        expected = m_v; return false;
    }
};
#endif
