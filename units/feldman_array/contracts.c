/* unit feldman_array — properties C28 and C17 (FeldmanHashSet part).
   C28: "inserting a hash not already present never fails; equal hashes always follow the same path" — over the real insert /
        traverse / expand_slot / search, for every accepted configuration within the node-size bound and every pair / triple
        of 16-bit hashes (including hashes that agree on every bit but the last level's).
   C17: "an insert reported successful is never silently dropped by a later internal relocation" — the relocation of
        FeldmanHashSet is expand_slot (a data slot becomes an array node and the element moves one level down): after every
        insert every element inserted earlier is still found, and expand_slot itself puts the element at the index the next
        traverse() will compute for it. */
#include <vx_c.h>
#ifndef VX_NODE_MAX
#define VX_NODE_MAX 16
#endif
#ifndef VX_HASH
#define VX_HASH 16
#endif
#define HBITS (VX_HASH == 16 ? 16 : VX_HASH * 8)
#define HMASK ((1u << HBITS) - 1)
static unsigned nondet_unsigned(void) { unsigned v; return v; }
static size_t nondet_size(void) { size_t v; return v; }
static vx_bool nondet_flag(void) { vx_bool v; return v ? 1 : 0; }
void w_init(size_t head_bits, size_t array_bits, size_t* out4);
vx_bool w_insert(unsigned k, unsigned hash);
int w_update(unsigned k, unsigned hash, vx_bool bInsert, vx_bool* second);
int w_find(unsigned hash);
int w_erase(unsigned hash);
size_t w_size(void);
unsigned w_nodes_used(void);
const void* w_item(unsigned k);
vx_bool w_expand_slot(size_t idx, unsigned hash, unsigned level, vx_bool env, size_t* off, int* new_bits, const void** child_parent, size_t* child_idxparent);
int w_child_slot(size_t i); vx_bool w_has_child(void);

int allocs, frees, retired_n, verify_failed; const void* retired_last;
void vx_alloc_event(int op) { if (op == 1) ++allocs; else ++frees; }
void vx_retired(const void* p) { ++retired_n; retired_last = p; }
void vx_verify_failed(void) { verify_failed = 1; }
void vx_pool_exhausted(void) { __CPROVER_assert(0, "shell: the pool of 8 node objects suffices for the bounded scenario"); }

size_t head_bits, array_bits; size_t M[4];
static void setup(void) {
    head_bits = nondet_size(); array_bits = nondet_size();
    /* metrics::make computes (hash_bits - head_bits) % array_bits on size_t: keep the raw arguments in a range where the
       64-bit modulo stays cheap for the solver; every normalised layout within the node-size bound is still reached */
    __CPROVER_assume(head_bits <= 64 && array_bits < 64);   /* array_bits >= 64 is not an accepted configuration (1 << array_bits; the set constructors assert is_correct) */
#ifdef VX_AB
    __CPROVER_assume(array_bits == VX_AB);                 /* one group per array-node width */
#endif
    w_init(head_bits, array_bits, M);
    __CPROVER_assume(M[0] <= VX_NODE_MAX && M[2] <= VX_NODE_MAX);
    allocs = 0; frees = 0;
}

void h_insert_pair(void) {
    setup();
    unsigned h0 = nondet_unsigned() & HMASK, h1 = nondet_unsigned() & HMASK, h2 = nondet_unsigned() & HMASK;
    vx_bool r0 = w_insert(0, h0);
    __CPROVER_assert(r0, "C28.insert_absent_succeeds: insert into the empty set succeeds");
    __CPROVER_assert(w_find(h0) == 0 && w_size() == 1, "C17.no_element_lost: the inserted element is found");
    vx_bool r1 = w_insert(1, h1);
    if (h1 != h0) {
        __CPROVER_assert(r1, "C28.insert_absent_succeeds: inserting a hash that is not present never fails (distinct hashes diverge before the bits run out)");
        __CPROVER_assert(w_find(h0) == 0, "C17.no_element_lost: the element inserted first is still found after the slot it lived in was expanded");
        __CPROVER_assert(w_find(h1) == 1, "C17.no_element_lost: the element inserted second is found");
        __CPROVER_assert(w_size() == 2, "C17.size: item count equals the number of successful inserts");
    } else {
        __CPROVER_assert(!r1, "C28.insert_present_fails: equal hashes follow the same path and collide at the same slot");
        __CPROVER_assert(w_find(h0) == 0 && w_size() == 1 && allocs == 0, "C17.no_element_lost: a rejected insert changes nothing");
    }
    if (h2 != h0 && h2 != h1) __CPROVER_assert(w_find(h2) == -1, "C28.insert_present_fails: a hash that was never inserted is not found (paths of distinct hashes end in distinct slots)");
    __CPROVER_assert(frees == 0 && !verify_failed, "C17.size: no array node is freed and no CAS of the conversion protocol fails without interference");
    VX_REACH_GUARD();
}

void h_insert_triple(void) {
    setup();
    unsigned h[3]; vx_bool r[3]; unsigned distinct = 0;
    for (unsigned i = 0; i < 3; ++i) h[i] = nondet_unsigned() & HMASK;
    int owner[3];
    for (unsigned i = 0; i < 3; ++i) {
        owner[i] = (int)i;
        for (unsigned j = 0; j < i; ++j) if (h[j] == h[i] && owner[i] == (int)i) owner[i] = owner[j];
        r[i] = w_insert(i, h[i]);
        if (owner[i] == (int)i) { __CPROVER_assert(r[i], "C28.insert_absent_succeeds: inserting a hash that is not present never fails"); ++distinct; }
        else __CPROVER_assert(!r[i], "C28.insert_present_fails: equal hashes collide at the same slot");
        for (unsigned j = 0; j <= i; ++j) __CPROVER_assert(w_find(h[j]) == owner[j], "C17.no_element_lost: every element inserted so far is still found after this insert (expansions included)");
        __CPROVER_assert(w_size() == distinct, "C17.size: item count equals the number of successful inserts");
    }
    VX_REACH_GUARD();
}

void h_expand_slot(void) {
    setup();
    size_t idx = nondet_size(); unsigned hash = nondet_unsigned() & HMASK, level = nondet_unsigned(); vx_bool env = nondet_flag();
    size_t levels = (HBITS - M[1]) / M[3];                    /* array levels below the head (layout is exact: lemma in unit feldman_addr) */
    __CPROVER_assume(level < levels);                      /* !eos(): the documented precondition of expand_slot */
    __CPROVER_assume(idx < (level == 0 ? M[0] : M[2]));
    size_t off; int bits, cidx = -1, ccount = 0; const void* cpar; size_t cidxpar;
    vx_bool r = w_expand_slot(idx, hash, level, env, &off, &bits, &cpar, &cidxpar);
    if (w_has_child()) for (size_t i = 0; i < VX_NODE_MAX; ++i) { int c = w_child_slot(i); if (c) ++ccount; if (c == 1) cidx = (int)i; }
    __CPROVER_assert(off == M[1] + level * M[3], "C28.expand_index: the position stands after the head cut and `level` array cuts");
    if (!env) {
        __CPROVER_assert(r && bits == 2, "C17.expand_links_child: the slot now refers to an array node");
        __CPROVER_assert(cpar != NULL && cidxpar == idx, "C17.expand_links_child: the new array node records its parent node and slot index");
        __CPROVER_assert(ccount == 1 && cidx >= 0, "C17.expand_keeps_element: the new array node holds exactly the element that was in the slot (unmarked), nothing else");
        __CPROVER_assert(cidx == (int)((hash >> off) & (M[2] - 1)), "C28.expand_index: the element sits at the index the next traverse() cuts from its hash (bits [offset, offset + array_bits))");
        __CPROVER_assert(allocs == 1 && frees == 0 && !verify_failed, "C17.expand_links_child: one array node allocated, none freed, both CAS steps succeed");
    } else {
        __CPROVER_assert(!r && bits == 100, "C17.expand_fail_no_leak: when another thread changed the slot first, expand_slot fails and leaves the slot alone");
        __CPROVER_assert(allocs == 1 && frees == 1, "C17.expand_fail_no_leak: the array node allocated for the attempt is freed");
    }
    VX_REACH_GUARD();
}

void h_update_erase(void) {
    setup();
    unsigned h0 = nondet_unsigned() & HMASK, h1 = nondet_unsigned() & HMASK;
    vx_bool second;
    __CPROVER_assert(w_insert(0, h0), "C28.insert_absent_succeeds: insert into the empty set succeeds");
    vx_bool ins = nondet_flag();
    int r = w_update(1, h1, ins, &second);
    if (h1 == h0) {
        __CPROVER_assert(r && !second && w_find(h0) == 1 && w_size() == 1, "C17.update_replaces: update with an equal hash replaces the element in place (count unchanged)");
        __CPROVER_assert(retired_n == 1 && retired_last == w_item(0), "C17.update_replaces: the replaced element, and only it, is retired");
    } else if (ins) {
        __CPROVER_assert(r && second && w_find(h0) == 0 && w_find(h1) == 1 && w_size() == 2, "C17.update_inserts: update(insert allowed) of an absent hash inserts it and keeps the other element");
    } else {
        __CPROVER_assert(!r && !second && w_find(h0) == 0 && w_find(h1) == -1 && w_size() == 1 && allocs == 0, "C17.update_noinsert: update(insert not allowed) of an absent hash changes nothing");
    }
    if (h1 != h0 && ins) {
        retired_n = 0;
        int e = w_erase(h0);
        __CPROVER_assert(e == 0 && w_find(h0) == -1 && w_find(h1) == 1 && w_size() == 1 && retired_n == 1, "C17.erase_removes_only_target: erase removes exactly the element with that hash");
        __CPROVER_assert(w_insert(2, h0) && w_find(h0) == 2 && w_find(h1) == 1 && w_size() == 2, "C28.insert_absent_succeeds: a hash erased earlier can be inserted again");
    }
    VX_REACH_GUARD();
}
