// unit feldman_array — native replay against the real cds::intrusive::FeldmanHashSet<cds::gc::HP, ...> of /repo.
// usage: replay <case> [head_bits=..] [array_bits=..] [h0=..] [h1=..] [h2=..]
// The case name carries the hash variant (_h16: unsigned short / number_splitter; _h2, _h1: byte strings / split_bitstring) and,
// when present, the array-node width (_aN). The verifier's inputs are tried first; then a native search over configurations and
// hash pairs / triples that share every prefix length. Exit 1 + "REPRODUCED" when the real container breaks an obligation.
#include <cstdio>
#include <cstdlib>
#include <cstring>
#include <string>
#include <map>
#include <vector>
#include <type_traits>
#include <cds/init.h>
#include <cds/gc/hp.h>
#include <cds/intrusive/feldman_hashset_hp.h>
typedef unsigned long long ull;
static std::map<std::string, ull> A;
static bool has(const char* n) { return A.count(n) != 0; }
static ull arg(const char* n) { return A.count(n) ? A[n] : 0; }

template <int N> struct bs { uint8_t b[N]; };
template <typename H> struct mk;
template <> struct mk<unsigned short> { static unsigned short f(unsigned h) { return (unsigned short) h; } static const unsigned bits = 16; };
template <int N> struct mk< bs<N> > { static bs<N> f(unsigned h) { bs<N> r; for (int i = 0; i < N; ++i) r.b[i] = (uint8_t)(h >> (8 * i)); return r; } static const unsigned bits = 8 * N; };

template <typename H> struct item { H hash; int payload; };
template <typename H> struct acc { H const& operator()(item<H> const& v) const { return v.hash; } };
template <typename H> struct traits : public cds::intrusive::feldman_hashset::traits { typedef acc<H> hash_accessor; typedef cds::intrusive::opt::v::empty_disposer disposer; typedef cds::atomicity::item_counter item_counter; };

// the splitter the set selects must be the one the verified shell uses (vx_slot_t is its uint_type)
static_assert(std::is_same< cds::algo::select_splitter<unsigned short, 2>::type, cds::algo::number_splitter<unsigned short> >::value, "select_splitter<unsigned short>");
static_assert(std::is_same< cds::algo::number_splitter<unsigned short>::uint_type, unsigned short >::value, "vx_slot_t for number_splitter<unsigned short>");
static_assert(std::is_same< cds::algo::select_splitter< bs<2>, 2 >::type, cds::algo::split_bitstring< bs<2>, 2 > >::value, "select_splitter<2 bytes>");
static_assert(std::is_same< cds::algo::split_bitstring< bs<2>, 2 >::uint_type, unsigned >::value, "vx_slot_t for split_bitstring");

static std::string why;
template <typename H>
static bool scenario(size_t head_bits, size_t array_bits, std::vector<unsigned> const& hs) {
    typedef cds::intrusive::FeldmanHashSet< cds::gc::HP, item<H>, traits<H> > set_t;
    set_t s(head_bits, array_bits);
    std::vector< item<H> > items(hs.size());
    std::vector<int> owner(hs.size());
    size_t distinct = 0; bool bad = false;
    for (size_t i = 0; i < hs.size() && !bad; ++i) {
        items[i].hash = mk<H>::f(hs[i]); items[i].payload = (int) i;
        owner[i] = (int) i;
        for (size_t j = 0; j < i; ++j) if (hs[j] == hs[i] && owner[i] == (int) i) owner[i] = owner[j];
        bool r = s.insert(items[i]);
        char buf[256];
        if (owner[i] == (int) i && !r) { std::snprintf(buf, sizeof buf, "insert of hash 0x%x (not present) returned false", hs[i]); why = buf; bad = true; break; }
        if (owner[i] != (int) i && r) { std::snprintf(buf, sizeof buf, "insert of hash 0x%x (already present) returned true", hs[i]); why = buf; bad = true; break; }
        if (owner[i] == (int) i) ++distinct;
        for (size_t j = 0; j <= i; ++j) {
            typename set_t::guarded_ptr gp = s.get(mk<H>::f(hs[j]));
            if (!gp || gp->payload != owner[j]) { std::snprintf(buf, sizeof buf, "element with hash 0x%x inserted earlier is not found after inserting 0x%x", hs[j], hs[i]); why = buf; bad = true; break; }
        }
        if (!bad && s.size() != distinct) { std::snprintf(buf, sizeof buf, "size() is %zu after %zu successful inserts", s.size(), distinct); why = buf; bad = true; }
    }
    s.clear();
    if (bad) {
        std::printf("REPRODUCED FeldmanHashSet(head_bits=%zu, array_bits=%zu), %u-bit hashes", head_bits, array_bits, mk<H>::bits);
        for (unsigned h : hs) std::printf(" 0x%x", h);
        std::printf(": %s\n", why.c_str());
    }
    return bad;
}

template <typename H>
static int run(int fixed_ab) {
    unsigned const bits = mk<H>::bits, mask = (1u << bits) - 1;
    if (has("h0") && has("h1")) {
        std::vector<unsigned> hs = { (unsigned) arg("h0") & mask, (unsigned) arg("h1") & mask };
        if (has("h2")) hs.push_back((unsigned) arg("h2") & mask);
        size_t ab = arg("array_bits"), hb = arg("head_bits");
        if (ab < 64 && scenario<H>(hb, ab, hs)) return 1;
    }
    // native search: every array width (or the fixed one), head widths 0..8, hash pairs sharing exactly k low bits, k = 0..bits, plus a third hash
    for (size_t ab = 1; ab <= 8; ++ab) {
        if (fixed_ab && (int) ab != fixed_ab) continue;
        for (size_t hb = 0; hb <= 8; hb += 4)
            for (unsigned base : { 0u, 0x5a5au & mask, mask })
                for (unsigned k = 0; k <= bits; ++k) {
                    unsigned h1 = k < bits ? (base ^ (1u << k)) & mask : base;
                    if (scenario<H>(hb, ab, { base, h1 })) return 1;
                    unsigned h2 = k + 1 < bits ? (base ^ (1u << (k + 1))) & mask : (base ^ 1u) & mask;
                    if (scenario<H>(hb, ab, { base, h1, h2 })) return 1;
                    if (scenario<H>(hb, ab, { h1, h2, base })) return 1;
                }
    }
    std::printf("not reproduced over the native scenario search\n");
    return 0;
}

int main(int argc, char** argv) {
    if (argc < 2) return 2;
    std::string c = argv[1];
    for (int i = 2; i < argc; ++i) { char* eq = std::strchr(argv[i], '='); if (!eq) continue; *eq = 0; A[argv[i]] = std::strtoull(eq + 1, nullptr, 0); }
    int ab = 0; size_t p = c.find("_a"); if (p != std::string::npos) ab = std::atoi(c.c_str() + p + 2);
    cds::Initialize();
    int rc;
    {
        cds::gc::HP hp(16);
        cds::threading::Manager::attachThread();
        if (c.find("_h16") != std::string::npos) rc = run<unsigned short>(ab);
        else if (c.find("_h2") != std::string::npos) rc = run< bs<2> >(ab);
        else rc = run< bs<1> >(ab);
        cds::threading::Manager::detachThread();
    }
    cds::Terminate();
    return rc;
}
