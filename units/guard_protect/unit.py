# unit guard_protect — the publication loop by which a container obtains a guard (premise of C01 / C02: "a guard that already
# protected the object when the reclamation pass began"): Guard::protect / GuardArray::protect / assign of cds::gc::HP and cds::gc::DHP
HP = 'cds/gc/hp.h'
DHP = 'cds/gc/dhp.h'


def f(path, name, anchor, nth=None, rewrites=None):
    d = dict(kind='fragment', path=path, name=name, anchor=anchor, rewrites=rewrites or [], body_only=True)
    return d


TLS_HP = dict(lit='hp_implementation::tls()->sync();', to='vx_tls_sync();', count=1, why='TLS record accessor -> shell (sync() is a fence; SC atomics)')
TLS_DHP = dict(lit='dhp::smr::tls()->sync();', to='vx_tls_sync();', count=1, why='TLS record accessor -> shell (sync() is a fence; SC atomics)')
stage = [
    dict(kind='shadow', path='cds/gc/details/retired_ptr.h', rewrites=[
        dict(re=r': m_p\( (.+?)\)\s*, m_funcFree\( (.+?) \)\s*\{\}', to=r': m_funcFree( \2 ) { m_p = \1; }', count=4, why='initialiser of an anonymous-union member is rejected by the front end; same stores in the body'),
        dict(re=r'template <typename Func, typename T>\s*static inline cds::gc::details::retired_ptr make_retired_ptr\( T \* p \)\s*\{\s*return[^\n]*\n\s*\}', to='', count=1, why='lambda (unsupported); not on a verified path'),
    ]),
    dict(kind='shadow', path='cds/gc/details/hp_common.h', rewrites=[
        dict(re=r'^\s*\w+\((?:\w+ const ?&|\w+ ?&&)?\) = delete;\n', to='', count=9, why='= delete on ctors'),
        dict(lit='arr_{ nullptr }', to='arr_()', count=1, why='brace initialiser in ctor list'),
        dict(lit='bool push(retired_ptr &&p) noexcept', to='bool push(retired_ptr &p) noexcept', count=1, why='rvalue-reference parameter'),
        dict(lit='static thread_local thread_data* tls_;', to='static thread_data* tls_;', count=1, why='thread_local; not on a verified path'),
        dict(lit='using cds::gc::make_retired_ptr;', to='', count=1, why='function dropped above'),
        dict(lit='new( arr ) guard[nSize];', to='vx_construct_guards( arr, nSize );', count=1, why='placement array-new -> loop of the same default constructions'),
        dict(re=r'template <typename T>\s*void set\( T\* ptr \) noexcept', to='void set( void* ptr ) noexcept', count=1, why='member template called with a deduced argument through -> is not resolved by the front end; void* parameter (every T* converts implicitly, the body reinterpret_casts to hazard_ptr = void*)'),
        dict(re=r'template <typename T>\s*void set\( size_t idx, T\* ptr \) noexcept', to='void set( size_t idx, void* ptr ) noexcept', count=1, why='same'),
    ]),
    f(HP, 'hp_guard_protect', r'template <typename T, class Func>\s*T protect\( atomics::atomic<T> const& \w+, Func \w+ \)'),
    f(HP, 'hp_guard_assign', r'template <typename T>\s*T \* assign\( T\* \w+ \)', rewrites=[TLS_HP]),
    f(HP, 'hp_array_protect', r'template <typename T, class Func>\s*T protect\( size_t \w+, atomics::atomic<T> const& \w+, Func \w+ \)'),
    f(HP, 'hp_array_assign', r'template <typename T>\s*T \* assign\( size_t \w+, T \* \w+ \)', rewrites=[TLS_HP]),
    f(DHP, 'dhp_guard_protect', r'template <typename T, class Func>\s*T protect\( atomics::atomic<T> const& \w+, Func \w+ \)'),
    f(DHP, 'dhp_guard_assign', r'template <typename T>\s*T\* assign\( T\* \w+ \)', rewrites=[TLS_DHP]),
    f(DHP, 'dhp_array_protect', r'template <typename T, class Func>\s*T protect\( size_t \w+, atomics::atomic<T> const& \w+, Func \w+ \)'),
    f(DHP, 'dhp_array_assign', r'template <typename T>\s*T \* assign\( size_t \w+, T \* \w+ \)', rewrites=[TLS_DHP]),
]


def G(name, k, fns):
    return dict(name=name, harness='h_protect', enforce=[], dfcc=False, functions=fns, props=['C01'] if name.startswith('hp') else ['C02'], defines=['VX_KIND=%d' % k],
                expect=[r'GP\.published_before_validation', r'GP\.returns_validated_value', r'GP\.slot_holds_converted'], unwind=5, timeout=600,
                bounded='the environment changes the source pointer at most VX_BUDGET=3 times during the call (fairness: protect() is lock-free, it returns once the source is stable for one round); 3 candidate objects')


RS = ['src/hp.cpp', 'src/init.cpp', 'src/thread_data.cpp', 'src/hp_thread_local.cpp', 'src/dhp.cpp', 'src/topology_linux.cpp', 'src/urcu_gp.cpp', 'src/urcu_sh.cpp']
UNIT = dict(
    properties=['C01', 'C02'],
    stage=stage,
    decl_rules=[
        dict(path=HP, re=r'hp::details::guard\* guard_;', count=2),
        dict(path=HP, re=r'hp::details::guard_array<c_nCapacity> guards_;', count=1),
        dict(path=DHP, re=r'dhp::guard\* guard_;', count=2),
        dict(path=DHP, re=r'dhp::guard_array<c_nCapacity> guards_;', count=1),
        dict(path=DHP, re=r'using namespace cds::gc::hp::common;', count=1),
    ],
    cxx=['shim.cpp'], c=['contracts.c'],
    cxxflags=['-Dconstexpr=', '-Dnoexcept=', '-Dexplicit=', '-Dprivate=public', '-Dprotected=public'],
    sabotage=[
        dict(name='hp_protect_no_revalidation', quick=True, props=['C01'], target='hp_guard_protect', lit='} while ( pRet != pCur );', to='} while ( false );', count=1, groups=['hp_guard'], expect_fail=r'GP\.published_before_validation'),
        dict(name='dhp_array_protect_returns_reread', quick=True, props=['C02'], target='dhp_array_protect', lit='return pRet;', to='return toGuard.load(atomics::memory_order_acquire);', count=1, groups=['dhp_array'], expect_fail=r'GP\.'),
    ],
    trusted_base=['CBMC 6.11 C++ front end (partial)', 'SC atomic<T> stub; tls()->sync() (a fence) has no effect under SC',
                  'shell structs for HP::Guard / HP::GuardArray<2> / DHP::Guard / DHP::GuardArray<2> holding the real member types (hp::common::guard, guard_array<2>) — declaration rules'],
    assumptions=['BOUNDED: <= 3 environment changes of the source pointer per call',
                 'weak-memory effects invisible (the real code relies on the fence in sync() between the slot store and the validating load)'],
    dropped=['template class context', 'member-template headers: the bodies are compiled in functions whose signature the shell writes with T = node pointer / value type and Func = the conversion functor (the front end cannot instantiate locals of a member-template parameter type); the anchors match the real signatures', 'lambda overloads protect(toGuard) (forward to the verified two-argument form with the identity functor)'],
    groups=[
        G('hp_guard', 0, ['cds::gc::HP::Guard::protect(atomic<T> const&, Func)', 'HP::Guard::assign(T*)', 'hp::common::guard::set']),
        G('hp_array', 1, ['cds::gc::HP::GuardArray<N>::protect(size_t, atomic<T> const&, Func)', 'HP::GuardArray<N>::assign(size_t, T*)', 'hp::common::guard_array::set']),
        G('dhp_guard', 2, ['cds::gc::DHP::Guard::protect(atomic<T> const&, Func)', 'DHP::Guard::assign(T*)']),
        G('dhp_array', 3, ['cds::gc::DHP::GuardArray<N>::protect(size_t, atomic<T> const&, Func)', 'DHP::GuardArray<N>::assign(size_t, T*)']),
    ],
)
