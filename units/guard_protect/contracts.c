/* unit guard_protect — premise of C01 / C02. A container obtains a guard through protect(): it must return a value r of the
   source pointer such that at the instant the source was last read as r the hazard slot ALREADY held f(r) — only then does a
   reclamation pass that starts later (or that reads the slot after that instant) see the object protected, which is what
   "a guard that already protected it when the reclamation pass began" relies on. The environment (other threads) may change
   the source pointer before any atomic access, a bounded number of times. */
#include <vx_c.h>
#ifndef VX_BUDGET
#define VX_BUDGET 3
#endif
static unsigned nondet_unsigned(void) { unsigned v; return v; }
const void* w_src_addr(void); void w_src_set(unsigned k); unsigned w_src_get(void); unsigned w_slot_get(unsigned idx); unsigned w_protect(unsigned idx);
int budget; unsigned idx_under_test; unsigned loads; unsigned src_at_last_load, slot_at_last_load;
void vx_env(const void* addr) {
    /* rely: another thread may replace the source pointer (to any of the objects or null) at any point; it never writes the caller's hazard slot */
    if (budget > 0 && nondet_unsigned() % 2) { --budget; w_src_set(nondet_unsigned() % 4); }
}
void vx_loaded(const void* addr) {
    if (addr == w_src_addr()) { ++loads; src_at_last_load = w_src_get(); slot_at_last_load = w_slot_get(idx_under_test); }
}
void h_protect(void) {
    w_src_set(nondet_unsigned() % 4);
    idx_under_test = nondet_unsigned() % 2;
    budget = VX_BUDGET; loads = 0;
    unsigned r = w_protect(idx_under_test);
    __CPROVER_assert(r <= 3 && loads >= 2 && r == src_at_last_load, "GP.returns_validated_value: protect() returns the value its last (validating) read of the source saw");
    __CPROVER_assert(slot_at_last_load == r, "GP.published_before_validation: at the instant of the validating read the hazard slot already held f(r) (null for null)");
    __CPROVER_assert(w_slot_get(idx_under_test) == r, "GP.slot_holds_converted: on return the slot holds f(r), the converted pointer, not the raw one");
    __CPROVER_assert(w_slot_get(1 - idx_under_test) == 3, "GP.slot_holds_converted: no other slot is written");
    VX_REACH_GUARD();
}
