// unit guard_protect — C01/C02 premise: the publication loop of Guard::protect / GuardArray::protect (HP and DHP).
// Real text: hp::common::guard, guard_array (shadow of cds/gc/details/hp_common.h); fragments protect(toGuard, f), assign(p),
// protect(nIndex, toGuard, f), assign(nIndex, p) of cds::gc::HP::Guard / GuardArray and cds::gc::DHP::Guard / GuardArray.
// Shell: structs holding the real member (guard_ / guards_), the TLS sync() call (a fence), a node type and a conversion functor.
extern "C" void vx_env( const void* addr );
extern "C" void vx_loaded( const void* addr );
#define VX_ATOMIC_ENV( a ) vx_env( (const void*)( a ))
#define VX_ATOMIC_LOADED( a, v ) ( vx_loaded( (const void*)( a )), ( v ))
#include <cds/details/defs.h>
#include <cds/algo/atomic.h>
#include <stdexcept>
#include <algorithm>
#include <vector>
#include <utility>
#include <cds/user_setup/cache_line.h>
#include <cds/details/throw_exception.h>
namespace cds { namespace gc { namespace hp { namespace common { class guard; } } } }
static inline void vx_construct_guards( cds::gc::hp::common::guard*, size_t ) {}
#include <cds/gc/details/hp_common.h>
namespace hpc = cds::gc::hp::common;
static inline void vx_tls_sync() {}
struct vx_node { int key; int value; };
struct vx_to_value { int* operator()( vx_node* p ) const { return p ? &p->value : nullptr; } };   // node pointer -> value pointer (what intrusive containers pass)

typedef vx_node* T; typedef vx_to_value Func;      // the member-template parameters of protect(); assign() is instantiated with the value type
struct shell_hp_guard { hpc::guard* guard_;
    int* assign( int* p )
#include <hp_guard_assign.inc>
    T protect( atomics::atomic<T> const& toGuard, Func f )
#include <hp_guard_protect.inc>
};
struct shell_hp_array { static size_t capacity() { return 2; } hpc::guard_array<2> guards_;
    int* assign( size_t nIndex, int* p )
#include <hp_array_assign.inc>
    T protect( size_t nIndex, atomics::atomic<T> const& toGuard, Func f )
#include <hp_array_protect.inc>
};
struct shell_dhp_guard { hpc::guard* guard_;
    int* assign( int* p )
#include <dhp_guard_assign.inc>
    T protect( atomics::atomic<T> const& toGuard, Func f )
#include <dhp_guard_protect.inc>
};
struct shell_dhp_array { static size_t capacity() { return 2; } hpc::guard_array<2> guards_;
    int* assign( size_t nIndex, int* p )
#include <dhp_array_assign.inc>
    T protect( size_t nIndex, atomics::atomic<T> const& toGuard, Func f )
#include <dhp_array_protect.inc>
};

static hpc::guard g_slot0, g_slot1;
static atomics::atomic<vx_node*> g_src;
static vx_node g_o0, g_o1, g_o2;
extern "C" {
const void* w_src_addr( void ) { return &g_src.v_; }
void w_src_set( unsigned k ) { g_src.v_ = k == 0 ? &g_o0 : k == 1 ? &g_o1 : k == 2 ? &g_o2 : nullptr; }
unsigned w_src_get( void ) { vx_node* p = g_src.v_; return p == &g_o0 ? 0 : p == &g_o1 ? 1 : p == &g_o2 ? 2 : 3; }
// content of the slot under test: 0..2 = value pointer of object k, 3 = null, 4 = anything else (e.g. the unconverted node pointer)
unsigned w_slot_get( unsigned idx ) { void* p = ( idx ? g_slot1 : g_slot0 ).hp_.v_; return p == (void*) &g_o0.value ? 0 : p == (void*) &g_o1.value ? 1 : p == (void*) &g_o2.value ? 2 : p == nullptr ? 3 : 4; }
unsigned w_protect( unsigned idx ) {
    vx_to_value f; vx_node* r;
#if VX_KIND == 0
    shell_hp_guard g; g.guard_ = idx ? &g_slot1 : &g_slot0; r = g.protect( g_src, f );
#elif VX_KIND == 1
    shell_hp_array g; g.guards_.reset( 0, &g_slot0 ); g.guards_.reset( 1, &g_slot1 ); r = g.protect( idx, g_src, f );
#elif VX_KIND == 2
    shell_dhp_guard g; g.guard_ = idx ? &g_slot1 : &g_slot0; r = g.protect( g_src, f );
#else
    shell_dhp_array g; g.guards_.reset( 0, &g_slot0 ); g.guards_.reset( 1, &g_slot1 ); r = g.protect( idx, g_src, f );
#endif
    return r == &g_o0 ? 0 : r == &g_o1 ? 1 : r == &g_o2 ? 2 : r == nullptr ? 3 : 4;
}
}
