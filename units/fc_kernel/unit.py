# unit fc_kernel — C23 (partial): the flat-combining kernel's combiner pass, requester protocol, publication and compaction
K = 'cds/algo/flat_combining/kernel.h'


def f(name, anchor, rewrites=None, body_only=False, **kw):
    d = dict(kind='fragment', path=K, name=name, anchor=anchor, rewrites=rewrites or [], body_only=body_only)
    d.update(kw)
    return d


TC = 'template <class Container>'
stage = [
    dict(kind='verbatim', path='cds/algo/flat_combining/defs.h'),
    f('empty_stat', r'struct empty_stat(?=\s*\{)', semicolon=True),
    f('release_record', r'void release_record\( publication_record_type \* \w+ \)'),
    f('operation_done', r'void operation_done\( publication_record& \w+ \)'),
    f('wakeup_any', r'void wakeup_any\(\)'),
    f('tls_cleanup', r'static void tls_cleanup\( publication_record_type\* \w+ \)'),
    f('publish', r'void publish\( publication_record_type\* \w+ \)'),
    f('republish', r'void republish\( publication_record_type\* \w+ \)'),
    f('try_combining', TC + r'\s*void try_combining\( Container& \w+, publication_record_type\* \w+ \)', body_only=True),
    f('combining', TC + r'\s*void combining\( Container& \w+ \)', body_only=True),
    f('combining_pass', TC + r'\s*bool combining_pass\( Container& \w+, unsigned int \w+ \)', body_only=True),
    f('wait_for_combining', r'bool wait_for_combining\( publication_record_type\* \w+ \)'),
    f('compact_list', r'void compact_list\( unsigned int \w+ \)', rewrites=[
        dict(re=r'case removed:(\s*)publication_record \* pNext =', to=r'case removed: {\1publication_record * pNext =', count=1,
             why='a declaration directly under a case label (no braces): the front end loses its initialiser (the variable reads INVALID); braces added around the case body, every use stays in that scope'),
        dict(lit='try_again:', to='bool vx_again; publication_record * pPrev; do { vx_again = false;', count=1,
             why='a backward goto out of for/switch scopes is mis-translated by the C++ front end (the locals re-declared after the label read as INVALID on every path, reproduced on a 20-line program); the retry is written as do { ... } while ( vx_again ) with the same control flow (next two rules)'),
        dict(re=r'goto try_again;(\s*)\}\n', to=r'{ vx_again = true; p = nullptr; continue; }\1}\1}\n', count=1, why='retry: leave the for loop (p = nullptr ends it) and run the do-body again; second brace closes the block opened at `case removed:`'),
        dict(lit='publication_record * pPrev = m_pHead;', to='pPrev = m_pHead;', count=1, why='declaration hoisted in front of the do (pPrev is used after the retried region)'),
        dict(lit='// Iterate over allocated list to find removed records', to='} while ( vx_again );', count=1, why='end of the retried region: exactly the first loop, as with the label'),
    ]),
    f('combine', TC + r'\s*void combine\( unsigned int \w+, publication_record_type \* \w+, Container& \w+ \)', body_only=True),
]


def G(name, harness, expect, fns, unwind=7, timeout=1200, tier='quick', bounded=None):
    return dict(name=name, harness=harness, enforce=[], dfcc=False, functions=fns, expect=expect, props=['C23'], unwind=unwind, timeout=timeout, tier=tier, replay=dict(driver='replay.cpp', case=name, vars=[], repo_sources=RS, libs=['-lboost_thread', '-lboost_system']),
                bounded=bounded or 'publication list of the kernel head record plus <= 3 records (each present or not, state and request symbolic); <= 2 combining passes; interference budget 2')


RS = ['src/hp.cpp', 'src/init.cpp', 'src/thread_data.cpp', 'src/hp_thread_local.cpp', 'src/dhp.cpp', 'src/topology_linux.cpp', 'src/urcu_gp.cpp', 'src/urcu_sh.cpp']
UNIT = dict(
    properties=['C23'],
    stage=stage,
    decl_rules=[
        dict(path=K, re=r'typedef std::lock_guard<global_lock_type> lock_guard;', count=1),
        dict(path=K, re=r'publication_record_type\*\s+m_pHead;\s*///< Head of active publication list\s*publication_record_type\*\s+m_pAllocatedHead;', count=1),
        dict(path=K, re=r'unsigned int const\s+m_nCompactFactor;', count=1),
        dict(path=K, re=r'unsigned int const\s+m_nCombinePassCount;', count=1),
        dict(path=K, re=r'm_pAllocatedHead =\s*m_pHead = pRec;', count=1),
        dict(path=K, re=r'cxx11_allocator\(\)\.Delete\( pRec \);', count=1),
    ],
    cxx=['shim.cpp'], c=['contracts.c'],
    cxxflags=['-Dconstexpr=', '-Dnoexcept=', '-Dexplicit=', '-Dprivate=public', '-Dprotected=public'],
    sabotage=[
        dict(name='pass_skips_operation_done', quick=True, target='combining_pass', lit='operation_done( *p );', to=';', count=1, groups=['combining_pass'], expect_fail=r'C23\.'),
        dict(name='pass_applies_answered', target='combining_pass', lit='if ( p->op( memory_model::memory_order_acquire ) >= req_Operation ) {', to='if ( p->op( memory_model::memory_order_acquire ) >= req_Response ) {', count=1, groups=['combining_pass'], expect_fail=r'C23\.'),
        dict(name='response_before_apply', target='combining_pass', re=r'owner\.fc_apply\( static_cast<publication_record_type\*>\( p \)\);\s*operation_done\( \*p \);', to='operation_done( *p ); owner.fc_apply( static_cast<publication_record_type*>( p ));', count=1,
             groups=['combining_pass'], expect_fail=r'C23\.response_after_execution|C23\.apply_only_pending'),
        dict(name='waiter_returns_without_response', target='wait_for_combining', lit='while ( pRec->op( memory_model::memory_order_acquire ) != req_Response ) {', to='while ( pRec->op( memory_model::memory_order_acquire ) == req_EmptyRecord ) {', count=1,
             groups=['try_combining'], expect_fail=r'C23\.'),
        dict(name='compact_frees_active', target='compact_list', lit='if ( p->nState.load( memory_model::memory_order_relaxed ) == removed ) {', to='if ( p->nState.load( memory_model::memory_order_relaxed ) != active ) {', count=1,
             groups=['compact_list'], expect_fail=r'C23\.'),
    ],
    trusted_base=['CBMC 6.11 C++ front end (partial)', 'SC atomics',
                  'shell class for kernel<PublicationRecord,Traits>: members tied to the real declarations; ghost mutex (try_lock/lock/unlock reported), lock_guard with adopt semantics (destructor unlocks), wait strategy reduced to its calls (wait() lets the environment run), allocator -> ghost free notification, thread-specific pointer not modelled',
                  'rely (other threads): a requester only turns its own EMPTY record into a pending request and publishes its own record; another combiner acts only while it holds the mutex and then follows the same exactly-once rule'],
    assumptions=['BOUNDED: list of <= 4 records, <= 2 passes, interference budget 2', 'batch_combine / try_batch_combining / iterators are not covered (same structure as combine / try_combining)'],
    dropped=['template class context; member-template headers of try_combining/combining/combining_pass/combine written by the shell with Container = the shell owner', 'statistics (empty policy)'],
    groups=[
        dict(G('combining_pass', 'h_combining_pass', [r'C23\.apply_only_pending', r'C23\.response_after_execution', r'C23\.pass_executes_all_pending', r'C23\.pass_touches_nothing_else'],
               ['kernel::combining_pass', 'kernel::operation_done'], bounded='one combining_pass over the head record plus <= 3 records (each present or not, state and request symbolic); interference budget 2')),
        dict(G('combining', 'h_combining_pass', [r'C23\.apply_only_pending', r'C23\.response_after_execution', r'C23\.pass_executes_all_pending', r'C23\.pass_touches_nothing_else'],
               ['kernel::combining', 'kernel::combining_pass', 'kernel::operation_done'], tier='thorough', timeout=7200), defines=['VX_WHOLE', 'VX_PASSES_MAX=2']),
        G('try_combining', 'h_try_combining', [r'C23\.request_executed_exactly_once', r'C23\.mutex_released', r'C23\.apply_only_under_mutex'],
          ['kernel::combine', 'kernel::try_combining', 'kernel::wait_for_combining', 'kernel::combining', 'kernel::combining_pass', 'kernel::republish', 'kernel::publish'], unwind=6,
          bounded='head record plus <= 2 records, one combining pass, interference budget 2, the other combiner finishes its pass by the second wait of the caller (other combiner executes / compacts the caller away / releases; another thread takes the mutex first)'),
        G('publish', 'h_publish', [r'C23\.publish_'], ['kernel::publish', 'kernel::republish', 'kernel::release_record']),
        G('compact_list', 'h_compact_list', [r'C23\.compact_'], ['kernel::compact_list', 'kernel::tls_cleanup']),
    ],
)
