// unit fc_kernel — native replay against the real cds::algo::flat_combining::kernel of /repo (header only + boost thread TLS).
// Scenario "thread exit during compaction": a requester thread exits (its TLS cleanup marks its publication record `removed`)
// while the combiner is between the two loops of compact_list(). The interleaving is forced through public customisation points
// only: traits::stat::onDeactivatePubRecord() (called inside the first loop) and traits::allocator (records what was freed and
// keeps the memory, so that looking at a freed record afterwards is harmless for this driver).
// Exit 1 + "REPRODUCED" when a freed publication record is still linked in the publication list (the next combining pass reads it).
#include <cstdio>
#include <cstdlib>
#include <string>
#include <set>
#include <atomic>
#include <thread>
#include <functional>
#include <memory>
#include <cds/init.h>
#include <cds/algo/flat_combining.h>
namespace fc = cds::algo::flat_combining;
static std::set<void*> g_freed;
template <class T> struct track_alloc : public std::allocator<T> {
    template <class U> struct rebind { typedef track_alloc<U> other; };
    track_alloc() {} template <class U> track_alloc(track_alloc<U> const&) {}
    void deallocate(T* p, size_t) { g_freed.insert((void*)p); }      // remember, keep the memory
};
static std::function<void()> g_on_deactivate;
struct hook_stat : public fc::empty_stat { void onDeactivatePubRecord() { if (g_on_deactivate) g_on_deactivate(); } };
struct rec : public fc::publication_record { int v; };
struct traits : public fc::traits { typedef hook_stat stat; typedef track_alloc<int> allocator; };
typedef fc::kernel<rec, traits> kernel_t;
struct K : public kernel_t { K(unsigned cf, unsigned passes) : kernel_t(cf, passes) {} fc::publication_record* head() { return this->m_pHead; } };
typedef kernel_t::publication_record_type prec;
struct owner_t { int applied = 0; void fc_apply(prec*) { ++applied; } };
static void one_op(K& k, owner_t& o) { prec* r = k.acquire_record(); k.combine(fc::req_Operation, r, o); k.release_record(r); }

int main(int argc, char** argv) {
    std::string c = argc > 1 ? argv[1] : "";
    cds::Initialize();
    int found = 0;
    {
        K k(2, 1);                      // compaction on every second combining round; records older than one round are deactivated
        owner_t own;
        std::atomic<int> phase(0);
        std::thread X([&]{ one_op(k, own); phase = 1; while (phase.load() < 9) std::this_thread::yield(); });
        while (phase.load() < 1) std::this_thread::yield();
        std::atomic<bool> b_exit(false);
        std::thread B([&]{ one_op(k, own); one_op(k, own); phase = 2; while (!b_exit.load()) std::this_thread::yield(); });   // B's record: recently used, linked in front of X's
        while (phase.load() < 2) std::this_thread::yield();
        bool fired = false;
        g_on_deactivate = [&]{ if (!fired) { fired = true; b_exit = true; B.join(); } };   // X's old record is being deactivated: B exits right now
        one_op(k, own);                 // the main thread combines; this round compacts
        g_on_deactivate = nullptr;
        if (!fired) { std::printf("scenario not reached (no record was deactivated in this round)\n"); if (B.joinable()) { b_exit = true; B.join(); } }
        else {
            int n = 0;
            for (fc::publication_record* p = k.head(); p && n < 16; p = p->pNext.load(), ++n)
                if (g_freed.count((void*)p) || g_freed.count((void*)static_cast<prec*>(p))) {
                    std::printf("REPRODUCED %s: flat_combining::kernel: a thread exited while the combiner was between the two loops of compact_list(): its publication record (position %d of the publication list) was freed by the second loop but is still linked; the next combining pass reads freed memory\n", c.c_str(), n);
                    found = 1; break;
                }
        }
        phase = 9; X.join();
        if (!found) one_op(k, own);
    }
    cds::Terminate();
    if (!found) std::printf("not reproduced over the native scenario\n");
    return found;
}
