/* unit fc_kernel — property C23 (partial): "every published request is executed exactly once, by one combiner at a time, and its
   requester observes the response only after execution; publication records left by exited threads are reclaimed and not
   accessed afterwards" — as ghost-state obligations on the real kernel functions:
     ghost per record: issued (requests stored into nRequest), applied (fc_apply calls), freed;
     ghost mutex holder: none / me / other.
   Rely (other threads, applied by vx_env before every atomic access of the code under check, within a budget):
     - a requester turns its own EMPTY, active record into a pending request (issued+1);
     - a thread publishes its own inactive record at the head of the list;
     - while another thread holds the mutex it may execute a pending active request (applied+1, response), deactivate an
       active record (unlink + inactive, what compact_list does), and release the mutex; while nobody holds it, another thread may take it. */
#include <vx_c.h>
#ifndef VX_BUDGET
#define VX_BUDGET 2
#endif
enum { EMPTY = 0, RESPONSE = 1, OP = 2 };
enum { INACTIVE = 0, ACTIVE = 1, REMOVED = 2 };
static unsigned nondet_unsigned(void) { unsigned v; return v; }
void w_set_rec(unsigned i, unsigned req, unsigned state, unsigned age, unsigned next, unsigned next_alloc);
void w_init(unsigned count, unsigned compact_mask, unsigned passes);
unsigned w_req(unsigned i); unsigned w_state(unsigned i); unsigned w_age(unsigned i); unsigned w_next(unsigned i); unsigned w_next_alloc(unsigned i);
unsigned w_idx_of(const void* p); unsigned w_field_of(const void* a);
void w_env_set_req(unsigned i, unsigned req); void w_env_publish(unsigned i); void w_env_set_state(unsigned i, unsigned st);
vx_bool w_combining_pass(unsigned age); void w_combining(void); void w_combine(unsigned op, unsigned i);
void w_publish(unsigned i); void w_republish(unsigned i); void w_release_record(unsigned i); void w_compact_list(unsigned age); void w_tls_cleanup(unsigned i);

int holder;                       /* 0 none, 1 me, 2 another thread */
unsigned issued[5], applied[5], freed[5], env_issued[5];
int budget; int exit_budget; int mode;             /* 1 pass (I am the combiner), 2 requester protocol, 3 publish, 4 compact */
unsigned me; int spare_published; unsigned env_exited[5];

static unsigned present[5], state0[5], req0[5], age0[5], next0[5], pending0[5];
/* in the requester-protocol harness the caller's record is the head or record 1, and record 1 is only ever (re)linked right behind the head */
static vx_bool me_linked(void) { return me == 0 || w_next(0) == 1; }
static vx_bool in_list(unsigned i) { unsigned p = 0; for (unsigned k = 0; k < 6; ++k) { if (p == i) return 1; if (p > 4) return 0; p = w_next(p); } return 0; }
static vx_bool in_alloc(unsigned i) { unsigned p = 0; for (unsigned k = 0; k < 6; ++k) { if (p == i) return 1; if (p > 4) return 0; p = w_next_alloc(p); } return 0; }
static void env_unlink(unsigned i) { unsigned p = 0; for (unsigned k = 0; k < 6; ++k) { if (p > 4) return; unsigned n = w_next(p); if (n == i) { w_set_rec(p, w_req(p), w_state(p), w_age(p), w_next(i), w_next_alloc(p)); return; } p = n; } }

void vx_env(const void* addr);
int vx_mutex_try_lock(void) {
    vx_env(NULL);      /* other threads also run between the caller's wait and its attempt to take the mutex */
    if (mode == 2 && holder == 0 && budget > 0 && nondet_unsigned() % 2) { --budget; holder = 2; }   /* another thread is faster */
    if (holder == 0) { holder = 1; return 1; }
    return 0;
}
void vx_mutex_lock(void) { __CPROVER_assume(holder == 0); holder = 1; }
void vx_mutex_unlock(void) { __CPROVER_assert(holder == 1, "C23.mutex_released: the mutex is released only by the thread that holds it"); holder = 0; }
int cas_budget;
int vx_cas_weak_fails(void) { if (cas_budget > 0 && nondet_unsigned() % 2) { --cas_budget; return 1; } return 0; }   /* spurious failure of compare_exchange_weak, budgeted */
void vx_notify(const void* rec) {}
void vx_wakeup(void) {}

void vx_apply(const void* rec) {
    unsigned i = w_idx_of(rec);
    __CPROVER_assert(i <= 4, "C23.apply_only_pending: fc_apply gets a record of the publication list");
    __CPROVER_assert(holder == 1, "C23.apply_only_under_mutex: the container's fc_apply runs only while this thread holds the combiner mutex (one combiner at a time)");
    if (i <= 4) {
        __CPROVER_assert(!freed[i], "C23.compact_no_access_after_free: a reclaimed record is never executed");
        __CPROVER_assert(w_state(i) == ACTIVE && w_req(i) >= OP, "C23.apply_only_pending: fc_apply is called only for an active record holding a pending request");
        __CPROVER_assert(applied[i] < issued[i], "C23.apply_only_pending: the request has not been executed before (each request at most once)");
        ++applied[i];
    }
}
void vx_free_rec(const void* rec) {
    unsigned i = w_idx_of(rec);
    __CPROVER_assert(i >= 1 && i <= 4 && !freed[i], "C23.compact_removed_reclaimed: a record is freed at most once and the head record never");
    if (i <= 4) { __CPROVER_assert(w_state(i) == REMOVED, "C23.compact_removed_reclaimed: only records marked removed (their thread has exited) are freed"); freed[i] = 1; }
}
void vx_after(const void* addr, unsigned long o, unsigned long n) {
    unsigned f = w_field_of(addr);
    if (f == 99) return;
    unsigned i = f / 10, fld = f % 10;
    if (fld == 0) {
        if (n == RESPONSE) __CPROVER_assert(holder == 1 && applied[i] == issued[i] && o >= OP, "C23.response_after_execution: a record is marked done only by the combiner, after its pending request was executed");
        else if (n >= OP) { __CPROVER_assert(i == me && (mode == 2), "C23.apply_only_pending: the kernel stores a request only into the caller's own record"); ++issued[i]; }
        else __CPROVER_assert(o == RESPONSE && i == me, "C23.publish_release: release_record empties only the caller's completed record");
    }
}
/* environment step before every atomic access of the code under check */
void vx_env(const void* addr) {
    unsigned f = w_field_of(addr);
    if (f != 99) __CPROVER_assert(!freed[f / 10], "C23.compact_no_access_after_free: a reclaimed publication record is not accessed afterwards");
    if (budget <= 0 && exit_budget <= 0) return;
    unsigned c = nondet_unsigned() % 8, j = 1 + nondet_unsigned() % 3;
    if (mode == 1) {          /* I am the combiner: requesters issue requests on their own empty, active records */
        if (c == 1 && budget > 0 && w_state(j) == ACTIVE && w_req(j) == EMPTY && present[j]) { --budget; w_env_set_req(j, OP + nondet_unsigned() % 2); ++issued[j]; env_issued[j] = 1; }
    } else if (mode == 2 && budget > 0) {
        if (holder == 2) {
            if (c == 1 && w_state(me) == ACTIVE && w_req(me) >= OP && me_linked()) { --budget; ++applied[me]; w_env_set_req(me, RESPONSE); }        /* the other combiner executes my request */
            else if (c == 2 && me != 0 && w_state(me) == ACTIVE && me_linked()) { --budget; w_set_rec(0, w_req(0), w_state(0), w_age(0), w_next(1), w_next_alloc(0)); w_env_set_state(me, INACTIVE); }             /* ... or compacts my (old) record away */
            else if (c == 3) { --budget; holder = 0; }                                                                                              /* ... or finishes */
        } else if (holder == 0 && c == 4) { --budget; holder = 2; }
    } else if (mode == 3 || mode == 4) {
        if (c == 1 && budget > 0 && !spare_published && w_state(4) == INACTIVE) { --budget; spare_published = 1; w_env_publish(4); }                               /* another thread publishes its record */
        else if (mode == 4 && c == 2 && exit_budget > 0 && !freed[j] && (w_state(j) == ACTIVE || w_state(j) == INACTIVE)) { --exit_budget; env_exited[j] = 1; w_env_set_state(j, REMOVED); }   /* a thread exits: its TLS cleanup marks its record removed, at any moment */
    }
}
/* wait strategy: lets the environment run; when the budget is used up the other combiner (if any) finishes its pass fairly */
int waits;
int vx_wait(void) {
    ++waits;
    vx_env(NULL);      /* waiting is where the other threads make progress */
    if (mode == 2 && holder == 2 && (budget <= 0 || waits >= 2)) {       /* fairness: a combiner's pass is finite */
        if (w_state(me) == ACTIVE && w_req(me) >= OP && me_linked()) { ++applied[me]; w_env_set_req(me, RESPONSE); }
        holder = 0;
    }
    return nondet_unsigned() % 2;
}

/* list 0 -> (1) -> (2) -> (3); allocated list 0 -> 1 -> 2 -> 3; record 4 is a spare (another thread's, not yet published) */
static void build(vx_bool symbolic_head) {
    present[0] = 1; present[4] = 0;
    for (unsigned i = 1; i <= 3; ++i) present[i] = nondet_unsigned() % 2;
    for (unsigned i = 0; i <= 3; ++i) {
        state0[i] = nondet_unsigned() % 3; req0[i] = nondet_unsigned() % 4; age0[i] = nondet_unsigned();
        if (i == 0 && !symbolic_head) { state0[i] = ACTIVE; }
        if (i > 0 && state0[i] == INACTIVE) present[i] = 0;                 /* invariant: an inactive record is not in the active list */
        if (i > 0 && state0[i] == ACTIVE) present[i] = 1;                   /* invariant: an active record is in the list (publish links before anyone else looks) */
    }
    for (unsigned i = 0; i <= 3; ++i) {
        unsigned n = 9; for (unsigned k = 3; k > i; --k) if (present[k]) n = k;
        next0[i] = present[i] ? n : 9;
        w_set_rec(i, req0[i], state0[i], age0[i], next0[i], i < 3 ? i + 1 : 9);
        issued[i] = req0[i] != EMPTY; applied[i] = req0[i] == RESPONSE; freed[i] = 0; env_issued[i] = 0;
        pending0[i] = present[i] && state0[i] == ACTIVE && req0[i] >= OP;
    }
    w_set_rec(4, EMPTY, INACTIVE, 0, 9, 9); issued[4] = applied[4] = freed[4] = env_issued[4] = 0; spare_published = 0;
}

void h_combining_pass(void) {
#ifndef VX_PASSES_MAX
#define VX_PASSES_MAX 1
#endif
    unsigned count = nondet_unsigned(), passes = 1 + nondet_unsigned() % VX_PASSES_MAX, age = nondet_unsigned();
#ifdef VX_WHOLE
    vx_bool whole = nondet_unsigned() % 2;       /* combining() (the pass loop) or one combining_pass() */
#else
    vx_bool whole = 0;
#endif
    w_init(count, 0xffff, passes);
    if (whole) __CPROVER_assume(((count + 1) & 0xffff) != 0);      /* no compaction in this group (compact_list has its own) */
    build(1);
    mode = 1; holder = 1; budget = VX_BUDGET; me = 9;
    vx_bool any = 0; for (unsigned i = 0; i <= 3; ++i) any |= pending0[i];
    vx_bool r = 0;
    if (whole) { w_combining(); age = count + 1; } else r = w_combining_pass(age);
    for (unsigned i = 0; i <= 3; ++i) {
        if (pending0[i]) {
            __CPROVER_assert(applied[i] == issued[i] && (w_req(i) == RESPONSE || env_issued[i]) && w_age(i) == age, "C23.pass_executes_all_pending: every request that was pending in an active, published record when the pass began has been executed and answered");
        } else if (!env_issued[i]) {
            __CPROVER_assert(applied[i] == (req0[i] == RESPONSE) && w_req(i) == req0[i] && w_age(i) == age0[i], "C23.pass_touches_nothing_else: records without a pending request (empty, answered, inactive, removed, unpublished) are neither executed nor changed");
        }
        __CPROVER_assert(applied[i] <= issued[i] && w_state(i) == state0[i] && w_next(i) == next0[i], "C23.pass_touches_nothing_else: never more executions than requests; states and links untouched");
    }
    if (!whole) __CPROVER_assert(!any || r, "C23.pass_executes_all_pending: the pass reports that it did work when a request was pending");
    __CPROVER_assert(holder == 1, "C23.apply_only_under_mutex: the pass itself does not release the mutex");
    VX_REACH_GUARD();
}

void h_try_combining(void) {
    unsigned count = nondet_unsigned(), passes = 1;
    w_init(count, 0xffff, passes);
    __CPROVER_assume(((count + 1) & 0xffff) != 0);
    build(0);
    present[3] = 0; state0[3] = INACTIVE;                     /* records: head, 1, 2 */
    me = nondet_unsigned() % 2;                                     /* the caller owns the head record or record 1 */
    /* my record: no request outstanding; it may have been compacted out of the list (inactive) but my thread is alive (not removed) */
    unsigned st = (me == 0) ? ACTIVE : (nondet_unsigned() % 2 ? ACTIVE : INACTIVE);
    if (me == 1) { present[1] = st == ACTIVE; }
    for (unsigned i = 0; i <= 3; ++i) { unsigned n = 9; for (unsigned k = 3; k > i; --k) if (present[k]) n = k; next0[i] = present[i] ? n : 9; }
    for (unsigned i = 0; i <= 3; ++i) w_set_rec(i, i == me ? EMPTY : req0[i], i == me ? st : state0[i], age0[i], next0[i], i < 3 ? i + 1 : 9);
    issued[me] = 0; applied[me] = 0;
    mode = 2; holder = nondet_unsigned() % 2 ? 2 : 0; budget = VX_BUDGET; waits = 0;
    unsigned others_applied_before = applied[2] + applied[3];
    w_combine(OP + nondet_unsigned() % 2, me);
    __CPROVER_assert(w_req(me) == RESPONSE, "C23.request_executed_exactly_once: combine() returns only after the caller's record carries the response");
    __CPROVER_assert(issued[me] == 1 && applied[me] == 1, "C23.request_executed_exactly_once: the caller's request was executed exactly once (by the caller as combiner or by another combiner)");
    __CPROVER_assert(holder != 1, "C23.mutex_released: the caller does not keep the combiner mutex");
    for (unsigned i = 0; i <= 3; ++i) __CPROVER_assert(applied[i] <= issued[i], "C23.request_executed_exactly_once: no request of any record executed more often than issued");
    VX_REACH_GUARD();
}

void h_publish(void) {
    unsigned count = nondet_unsigned();
    w_init(count, 0xffff, 1);
    build(0);
    /* record 3 is the caller's: inactive, not in the list */
    present[3] = 0;
    for (unsigned i = 0; i <= 3; ++i) { unsigned n = 9; for (unsigned k = 3; k > i; --k) if (present[k]) n = k; next0[i] = present[i] ? n : 9; }
    for (unsigned i = 0; i <= 3; ++i) w_set_rec(i, i == 3 ? EMPTY : req0[i], i == 3 ? INACTIVE : state0[i], age0[i], next0[i], i < 3 ? i + 1 : 9);
    mode = 3; holder = nondet_unsigned() % 3; budget = 1; me = 3; cas_budget = 1;
    vx_bool re = nondet_unsigned() % 2;
    if (re) w_republish(3); else w_publish(3);
    __CPROVER_assert(w_state(3) == ACTIVE && w_age(3) == count, "C23.publish_activates: the record is active and carries the current combining age");
    __CPROVER_assert(in_list(3), "C23.publish_links: the record is reachable from the head of the publication list");
    for (unsigned i = 1; i <= 2; ++i) if (present[i]) __CPROVER_assert(in_list(i) && w_next(i) == next0[i], "C23.publish_links: every record published before is still linked, in the same order");
    if (spare_published) __CPROVER_assert(in_list(4), "C23.publish_links: a record published concurrently by another thread is not lost");
    /* a second republish of an active record changes nothing */
    unsigned n3 = w_next(3), h = w_next(0); budget = 0;
    w_republish(3);
    __CPROVER_assert(w_next(3) == n3 && w_next(0) == h && w_state(3) == ACTIVE, "C23.publish_idempotent: republish() of an active record does not link it twice");
    VX_REACH_GUARD();
}

void h_compact_list(void) {
    unsigned count = nondet_unsigned(), mask = nondet_unsigned(), age = nondet_unsigned();
    w_init(count, mask, 1);
    build(0);
    vx_bool exited = nondet_unsigned() % 2;                      /* thread exit of record 3's owner right before: tls_cleanup marks it removed */
    if (exited && state0[3] != REMOVED) { w_tls_cleanup(3); __CPROVER_assert(w_state(3) == REMOVED && w_next(3) == next0[3], "C23.compact_removed_reclaimed: thread exit only marks the record"); state0[3] = REMOVED; }
    mode = 4; holder = 1; budget = 1; exit_budget = 1; me = 9;
    for (unsigned i = 0; i < 5; ++i) env_exited[i] = 0;
    w_compact_list(age);
    exit_budget = 0;
    for (unsigned i = 1; i <= 3; ++i) {
        vx_bool old = (unsigned)(age0[i] + mask) < age;
        __CPROVER_assert(!(freed[i] && in_list(i)), "C23.compact_no_access_after_free: a freed record is not reachable from the publication list (the next combining pass would read it)");
        if (env_exited[i]) {
            /* its thread exited while the compaction ran: it is reclaimed now or by the next compaction, but never freed while linked (asserted above) */
            __CPROVER_assert(freed[i] ? (!in_list(i) && !in_alloc(i)) : in_alloc(i), "C23.compact_removed_reclaimed: a record whose thread exits during the compaction is either fully reclaimed or left allocated for the next compaction");
        } else if (state0[i] == REMOVED) {
            __CPROVER_assert(!in_list(i) && !in_alloc(i) && freed[i] == 1, "C23.compact_removed_reclaimed: a record left by an exited thread is unlinked from both lists and freed exactly once");
        } else if (state0[i] == ACTIVE && !old) {
            __CPROVER_assert(in_list(i) && in_alloc(i) && !freed[i] && w_state(i) == ACTIVE, "C23.compact_keeps_live: a recently used active record stays published");
        } else if (state0[i] == ACTIVE && old) {
            __CPROVER_assert(!in_list(i) && in_alloc(i) && !freed[i] && w_state(i) == INACTIVE, "C23.compact_deactivates_old: an old active record is unlinked and marked inactive (its owner re-publishes it), never freed");
        } else {
            __CPROVER_assert(!in_list(i) && in_alloc(i) && !freed[i] && w_state(i) == INACTIVE, "C23.compact_keeps_live: an inactive record stays allocated and untouched");
        }
        __CPROVER_assert(w_req(i) == req0[i], "C23.compact_keeps_live: compaction never touches a request field");
    }
    __CPROVER_assert(!freed[0] && in_list(0) && w_state(0) == state0[0], "C23.compact_keeps_live: the head record is never unlinked or freed");
    /* a record published while the compaction runs may itself be judged old and deactivated (its owner re-publishes it in its wait loop): what must
       hold is that it is never freed and that its state keeps telling the truth about its membership, which republish() relies on */
    if (spare_published) __CPROVER_assert(!freed[4] && (w_state(4) == ACTIVE ? in_list(4) : (w_state(4) == INACTIVE && !in_list(4))), "C23.compact_keeps_live: a record published concurrently is not lost (linked and active, or unlinked and marked inactive)");
    VX_REACH_GUARD();
}
