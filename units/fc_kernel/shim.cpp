// unit fc_kernel — C23 (partial). Real text: cds/algo/flat_combining/defs.h (verbatim); fragments of kernel.h: empty_stat,
// release_record, operation_done, wakeup_any, tls_cleanup, publish, republish, try_combining, combining, combining_pass,
// wait_for_combining, compact_list, combine. Shell: class with the kernel's members, ghost mutex, wait strategy reduced to its
// calls, an owner whose fc_apply reports to the ghost.
extern "C" void vx_env( const void* addr );
extern "C" void vx_after( const void* addr, unsigned long o, unsigned long n );
#define VX_ATOMIC_ENV( a ) vx_env( (const void*)( a ))
#define VX_ATOMIC_AFTER( a, o, n ) vx_after( (const void*)( a ), (unsigned long)( o ), (unsigned long)( n ))
#define VX_CAS_WEAK_MAY_FAIL
#include <cds/details/defs.h>
#include <cds/algo/atomic.h>
#include <cds/algo/flat_combining/defs.h>
extern "C" {
    int vx_mutex_try_lock( void ); void vx_mutex_lock( void ); void vx_mutex_unlock( void );
    int vx_wait( void ); void vx_notify( const void* rec ); void vx_wakeup( void );
    void vx_apply( const void* rec ); void vx_free_rec( const void* rec );
}
namespace std { struct adopt_lock_t {}; }
using namespace cds::algo::flat_combining;
struct vx_rec : public publication_record { int payload; };
struct vx_mutex { bool try_lock() { return vx_mutex_try_lock() != 0; } void lock() { vx_mutex_lock(); } void unlock() { vx_mutex_unlock(); } };
struct vx_lock_guard { vx_mutex& m; vx_lock_guard( vx_mutex& mm ) : m( mm ) { m.lock(); } vx_lock_guard( vx_mutex& mm, std::adopt_lock_t ) : m( mm ) {} ~vx_lock_guard() { m.unlock(); } };
struct shell_kernel;
struct vx_owner { void fc_apply( vx_rec* p ) { vx_apply( p ); } };
struct vx_wait_strategy {
    void prepare( vx_rec& ) {}
    bool wait( shell_kernel&, vx_rec& ) { return vx_wait() != 0; }
    void notify( shell_kernel&, vx_rec& r ) { vx_notify( &r ); }
    void wakeup( shell_kernel& ) { vx_wakeup(); }
};
struct shell_kernel {
    typedef vx_rec publication_record_type; typedef vx_mutex global_lock_type; typedef vx_lock_guard lock_guard; typedef vx_owner Container;
    struct memory_model { static const atomics::memory_order memory_order_relaxed = atomics::memory_order_relaxed, memory_order_acquire = atomics::memory_order_acquire,
                                           memory_order_release = atomics::memory_order_release; };
#include <empty_stat.inc>
    typedef empty_stat stat;
    atomics::atomic<unsigned int> m_nCount; publication_record_type* m_pHead; publication_record_type* m_pAllocatedHead;
    mutable global_lock_type m_Mutex; mutable stat m_Stat; unsigned int m_nCompactFactor; unsigned int m_nCombinePassCount; vx_wait_strategy m_waitStrategy;
    void free_publication_record( publication_record_type* pRec ) { vx_free_rec( pRec ); m_Stat.onDeletePubRecord(); }   // real: cxx11_allocator().Delete( pRec ) (declaration rule)
#include <release_record.inc>
#include <operation_done.inc>
#include <wakeup_any.inc>
#include <tls_cleanup.inc>
#include <publish.inc>
#include <republish.inc>
    bool combining_pass( Container& owner, unsigned int nCurAge )
#include <combining_pass.inc>
#include <compact_list.inc>
    void combining( Container& owner )
#include <combining.inc>
#include <wait_for_combining.inc>
    void try_combining( Container& owner, publication_record_type* pRec )
#include <try_combining.inc>
    void combine( unsigned int nOpId, publication_record_type * pRec, Container& owner )
#include <combine.inc>
};
static shell_kernel g_k; static vx_owner g_owner; static vx_rec g_r0, g_r1, g_r2, g_r3, g_r4;
static inline vx_rec* R( unsigned i ) { return i == 0 ? &g_r0 : i == 1 ? &g_r1 : i == 2 ? &g_r2 : i == 3 ? &g_r3 : &g_r4; }
extern "C" {
// world: record 0 is the kernel's head record (m_pHead = m_pAllocatedHead); next/nextAllocated: index or 9 for null
void w_set_rec( unsigned i, unsigned req, unsigned state, unsigned age, unsigned next, unsigned next_alloc ) {
    vx_rec* r = R( i ); r->nRequest.v_ = req; r->nState.v_ = state; r->nAge.v_ = age; r->pNext.v_ = next < 5 ? R( next ) : nullptr; r->pNextAllocated.v_ = next_alloc < 5 ? R( next_alloc ) : nullptr;
}
void w_init( unsigned count, unsigned compact_mask, unsigned passes ) { g_k.m_nCount.v_ = count; g_k.m_pHead = &g_r0; g_k.m_pAllocatedHead = &g_r0; g_k.m_nCompactFactor = compact_mask; g_k.m_nCombinePassCount = passes; }
unsigned w_req( unsigned i ) { return R( i )->nRequest.v_; }   unsigned w_state( unsigned i ) { return R( i )->nState.v_; }   unsigned w_age( unsigned i ) { return R( i )->nAge.v_; }
static unsigned IDX( publication_record* p ) { return p == &g_r0 ? 0 : p == &g_r1 ? 1 : p == &g_r2 ? 2 : p == &g_r3 ? 3 : p == &g_r4 ? 4 : 9; }
unsigned w_next( unsigned i ) { return IDX( R( i )->pNext.v_ ); }   unsigned w_next_alloc( unsigned i ) { return IDX( R( i )->pNextAllocated.v_ ); }
unsigned w_idx_of( const void* p ) { return IDX( (publication_record*) const_cast<void*>( p )); }
// which record / field an atomic address belongs to: returns 10 * record + field (0 nRequest, 1 nState, 2 nAge, 3 pNext, 4 pNextAllocated), 99 otherwise
unsigned w_field_of( const void* a ) {
    for ( unsigned i = 0; i < 5; ++i ) { vx_rec* r = R( i );
        if ( a == (const void*) &r->nRequest.v_ ) return 10 * i; if ( a == (const void*) &r->nState.v_ ) return 10 * i + 1; if ( a == (const void*) &r->nAge.v_ ) return 10 * i + 2;
        if ( a == (const void*) &r->pNext.v_ ) return 10 * i + 3; if ( a == (const void*) &r->pNextAllocated.v_ ) return 10 * i + 4; }
    return 99;
}
void w_env_set_req( unsigned i, unsigned req ) { R( i )->nRequest.v_ = req; }
void w_env_publish( unsigned i ) { vx_rec* r = R( i ); r->nState.v_ = active; r->pNext.v_ = g_r0.pNext.v_; g_r0.pNext.v_ = r; }   // what publish() of another thread amounts to, atomically
void w_env_set_state( unsigned i, unsigned st ) { R( i )->nState.v_ = st; }
bool w_combining_pass( unsigned age ) { return g_k.combining_pass( g_owner, age ); }
void w_combining( void ) { g_k.combining( g_owner ); }
void w_combine( unsigned op, unsigned i ) { g_k.combine( op, R( i ), g_owner ); }
void w_publish( unsigned i ) { g_k.publish( R( i )); }
void w_republish( unsigned i ) { g_k.republish( R( i )); }
void w_release_record( unsigned i ) { g_k.release_record( R( i )); }
void w_compact_list( unsigned age ) { g_k.compact_list( age ); }
void w_tls_cleanup( unsigned i ) { shell_kernel::tls_cleanup( R( i )); }
}
