# unit feldman_addr — property C28
def g(name, fn, replace=(), unwind=None, tier='quick', replay=None, timeout=600):
    w = 'w_' + name
    d = dict(name=name, harness='h_' + w, enforce=[w], replace=list(replace), unwind=unwind, tier=tier, functions=fn,
             expect=[w + r'\.postcondition'], timeout=timeout, props=['C28'])
    if replay:
        d['replay'] = replay
    return d


def lemma(name, replace, desc, unwind=None):
    return dict(name=name, harness='h_' + name, enforce=[], replace=list(replace), unwind=unwind, functions=['lemma: ' + desc],
                expect=[r'C28\.lemma'], timeout=600, props=['C28'])


RP = lambda case, *v: dict(driver='replay.cpp', case=case, vars=list(v))
UNIT = dict(
    properties=['C28'],
    stage=[
        dict(kind='fragment', path='cds/intrusive/details/feldman_hashset_base.h', name='metrics', anchor=r'struct metrics(?= \{)', semicolon=True),
        dict(kind='shadow', path='cds/algo/split_bitstring.h', rewrites=[
            dict(lit='return count ? cut( count ) : 0;', to='if ( count ) return cut( count ); return 0;', count=3,
                 why='CBMC C++ front end types `c ? f() : 0` as int; the if-form is the same C++ semantics')]),
        dict(kind='verbatim', path='cds/algo/base.h'),
    ],
    decl_rules=[
        dict(path='cds/intrusive/details/feldman_hashset_base.h', re=r'nSlot = splitter\.cut\( static_cast<unsigned>\( arr\.metrics\(\)\.head_node_size_log \)\);', count=1),
        dict(path='cds/intrusive/details/feldman_hashset_base.h', re=r'pos\.nSlot = pos\.splitter\.cut\( static_cast<unsigned>\( metrics\(\)\.array_node_size_log \)\);', count=1),
        dict(path='cds/intrusive/details/feldman_hashset_base.h', re=r'm_Metrics\(feldman_hashset::details::metrics::make\( head_bits, array_bits, c_hash_size \)\)', count=1),
    ],
    cxx=['shim.cpp'], c=['contracts.c'], cxxflags=['-Dconstexpr=', '-Dnoexcept=', '-Dexplicit='],
    groups=[
        g('metrics_make', ['cds::intrusive::feldman_hashset::details::metrics::make'], replay=RP('metrics_make', 'a', 'b', 'c')),
        g('sb8_cut_twice', ['split_bitstring<8 bytes>::cut x2 on one object (ctor, cut, cut, bit_offset)'], unwind=34),
        g('ns64_cut_twice', ['number_splitter<size_t>::cut x2 on one object']),
        g('ns64_reset_cut', ['number_splitter<size_t>::reset + cut']),
        g('sb8_reset_cut', ['split_bitstring<8 bytes>::reset + cut'], unwind=34),
        g('ns64_eos', ['number_splitter<size_t>::eos']),
        g('sb8_eos', ['split_bitstring<8 bytes>::eos']),
        lemma('lemma_layout_exact', ['c_metrics_make'], 'layout consumes all hash bits exactly (over the metrics::make contract)'),
        lemma('lemma_same_path', ['c_cut'], 'equal hashes, equal slots (over the cut contract)'),
        lemma('lemma_divergence_step', ['c_cut'], 'divergence induction step (over the cut contract)'),
        lemma('lemma_divergence_end', [], 'bitwise-equal hashes are equal'),
    ],
    sabotage=[
        dict(name='metrics_no_remainder', quick=True, target='metrics', lit='head_bits += (hash_bits - head_bits) % array_bits;', to='head_bits += 0;', count=1,
             groups=['metrics_make'], expect_fail=r'w_metrics_make\.postcondition'),
    ],
    trusted_base=[
        'CBMC 6.11 C++ front end (partial) and DFCC contract instrumentation',
        'the path function (head cut, then array cuts until eos) is read off traverse_data::reset / multilevel_array::traverse and pinned by declaration rules; the traverse loop itself is verified in unit feldman_array',
        'induction over the levels (from the step lemma to "distinct hashes diverge before eos") is a paper argument over lemmas L1, L3, L3\'',
    ],
    assumptions=['hash sizes 1..64 bytes for metrics::make; divergence lemmas instantiated for 8-byte hashes (the cut contract is size-generic and proved per size in unit bits)',
                 'accepted configurations: normalised head bits < 64 and array bits < 64 (node sizes representable); FeldmanHashSet asserts is_correct() on both in its constructor'],
    dropped=['constexpr/noexcept/explicit keywords'],
)
