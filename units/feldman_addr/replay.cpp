// unit feldman_addr — native replay of metrics::make against /repo's header
#include <cstdio>
#include <cstdlib>
#include <cstring>
#include <string>
#include <map>
#include <vector>
#include <cds/intrusive/details/feldman_hashset_base.h>
typedef unsigned long long ull;
static std::map<std::string, ull> A;
static ull arg(const char* n) { return A.count(n) ? A[n] : 0; }
int main(int argc, char** argv) {
    if (argc < 2) return 2;
    for (int i = 2; i < argc; ++i) { char* eq = std::strchr(argv[i], '='); if (!eq) continue; *eq = 0; A[argv[i]] = std::strtoull(eq + 1, nullptr, 0); }
    size_t head = arg("a"), array = arg("b"), hs = arg("c");
    if (hs < 1 || hs > 64) { std::printf("input outside the accepted range\n"); return 0; }
    auto m = cds::intrusive::feldman_hashset::details::metrics::make(head, array, hs);
    size_t hb = hs * 8; bool bad = false;
    if (m.array_node_size_log < 2 || m.head_node_size_log < 4 || m.head_node_size_log > hb) bad = true;
    else if ((hb - m.head_node_size_log) % m.array_node_size_log != 0) bad = true;
    else if (m.head_node_size_log < 64 && m.head_node_size != (size_t(1) << m.head_node_size_log)) bad = true;
    else if (m.array_node_size_log < 64 && m.array_node_size != (size_t(1) << m.array_node_size_log)) bad = true;
    else { size_t ch = head < 4 ? 4 : head; if (ch > hb) ch = hb; if (m.head_node_size_log < ch || m.head_node_size_log - ch >= m.array_node_size_log) bad = true; }
    std::printf("%smetrics::make(head_bits=%zu, array_bits=%zu, hash_size=%zu) = {head_log=%zu, head=%zu, array_log=%zu, array=%zu}; hash bits %zu\n",
                bad ? "REPRODUCED layout not normalised: " : "ok ", head, array, hs, m.head_node_size_log, m.head_node_size, m.array_node_size_log, m.array_node_size, hb);
    return bad ? 1 : 0;
}
