// unit feldman_addr — Feldman hash addressing (C28): metrics::make (fragment of feldman_hashset_base.h) and the
// splitters it drives (real cds/algo/split_bitstring.h, shadow with the one ternary rewrite).
#include <cds/details/defs.h>
#include <cds/algo/split_bitstring.h>
namespace cds { namespace intrusive { namespace feldman_hashset { namespace details {
#include <metrics.inc>
}}}}
typedef cds::intrusive::feldman_hashset::details::metrics metrics_t;
extern "C" void w_metrics_make(size_t head_bits, size_t array_bits, size_t hash_size, size_t* out4) {
    metrics_t m = cds::intrusive::feldman_hashset::details::metrics::make(head_bits, array_bits, hash_size);
    out4[0] = m.head_node_size; out4[1] = m.head_node_size_log; out4[2] = m.array_node_size; out4[3] = m.array_node_size_log;
}
// two consecutive cuts on ONE splitter object (what traverse() does level after level)
template <int N> struct vx_bs { uint8_t b[N]; };
typedef cds::algo::split_bitstring< vx_bs<8>, 8, unsigned > sb8;
typedef cds::algo::split_bitstring< vx_bs<20>, 20, unsigned > sb20;
typedef cds::algo::number_splitter< size_t > ns64;
extern "C" unsigned w_sb8_cut_twice(const uint8_t* src, size_t* pos, unsigned c1, unsigned c2, unsigned* first) { sb8 s(*(const vx_bs<8>*)src, *pos); *first = s.cut(c1); unsigned r = s.cut(c2); *pos = s.bit_offset(); return r; }
extern "C" size_t w_ns64_cut_twice(size_t number, unsigned* shift, unsigned c1, unsigned c2, size_t* first) { ns64 s(number, *shift); *first = s.cut(c1); size_t r = s.cut(c2); *shift = (unsigned) s.bit_offset(); return r; }
// reset() then cut: the splitter restarts from bit 0 (traverse_data::reset)
extern "C" size_t w_ns64_reset_cut(size_t number, unsigned shift0, unsigned c) { ns64 s(number, shift0); s.reset(); return s.cut(c); }
extern "C" unsigned w_sb8_reset_cut(const uint8_t* src, size_t pos0, unsigned c) { sb8 s(*(const vx_bs<8>*)src, pos0); s.reset(); return s.cut(c); }
// eos() exactly when all bits are consumed
extern "C" bool w_ns64_eos(size_t number, unsigned shift) { ns64 s(number, shift); return s.eos(); }
extern "C" bool w_sb8_eos(const uint8_t* src, size_t pos) { sb8 s(*(const vx_bs<8>*)src, pos); return s.eos(); }
