/* unit feldman_addr — property C28 (Feldman hash addressing distinguishes every pair of distinct hashes) */
#include <vx_c.h>
#define MINU(a, b) ((a) < (b) ? (a) : (b))
#define SRCBIT(src, j) (((unsigned)(src)[(j) >> 3] >> ((j) & 7)) & 1u)
#define CUT_VALUE_V(ib, r, src, pos0, cnt, W) (__CPROVER_forall { unsigned ib; (ib < (W)) ==> ((ib < (cnt)) ? (BIT(r, ib) == SRCBIT(src, (pos0) + ib)) : (BIT(r, ib) == 0)) })
#define CUT_VALUE(r, src, pos0, cnt, W) CUT_VALUE_V(ib, r, src, pos0, cnt, W)
#define NS_VALUE_V(in, r, num, sh, cnt) (__CPROVER_forall { unsigned in; (in < 64) ==> ((in < (cnt)) ? (BIT(r, in) == BIT(num, ((sh) + in) & 63)) : (BIT(r, in) == 0)) })
#define NS_VALUE(r, num, sh, cnt) NS_VALUE_V(in, r, num, sh, cnt)

/* normalised layout (definition from the documentation of FeldmanHashSet: head clamped to [4, hash bits], array >= 2,
   head widened by the remainder so that the array levels divide the rest exactly) */
static size_t spec_clamp_head(size_t head, size_t hash_bits) { size_t h = head < 4 ? 4 : head; return h > hash_bits ? hash_bits : h; }
static size_t spec_array(size_t array) { return array < 2 ? 2 : array; }
static size_t spec_head(size_t head, size_t array, size_t hash_bits) { size_t h = spec_clamp_head(head, hash_bits); return h + (hash_bits - h) % spec_array(array); }

/* accepted configurations: hash of 1..64 bytes; node sizes must be representable (log2 < 64) */
void w_metrics_make(size_t head_bits, size_t array_bits, size_t hash_size, size_t* out4)
__CPROVER_requires(__CPROVER_is_fresh(out4, 4 * sizeof(size_t)))
__CPROVER_requires(hash_size >= 1 && hash_size <= 64 && array_bits < 64 && spec_head(head_bits, array_bits, hash_size * 8) < 64)
__CPROVER_ensures(out4[3] >= 2 && out4[3] == spec_array(array_bits))                                   /* array_node_size_log */
__CPROVER_ensures(out4[1] >= 4 && out4[1] <= hash_size * 8)                                            /* 4 <= head_node_size_log <= hash bits */
__CPROVER_ensures(out4[1] >= spec_clamp_head(head_bits, hash_size * 8) && out4[1] - spec_clamp_head(head_bits, hash_size * 8) < out4[3])   /* widened by less than one array level */
__CPROVER_ensures((hash_size * 8 - out4[1]) % out4[3] == 0)                                            /* array levels consume the rest exactly */
__CPROVER_ensures(out4[0] == ((size_t)1 << (out4[1] & 63)) && out4[2] == ((size_t)1 << (out4[3] & 63)))     /* sizes are the powers of two */
__CPROVER_assigns(__CPROVER_object_whole(out4));
void h_w_metrics_make(void) { size_t a, b, c; size_t* o; w_metrics_make(a, b, c, o); VX_REACH_GUARD(); }

unsigned w_sb8_cut_twice(const uint8_t* src, size_t* pos, unsigned c1, unsigned c2, unsigned* first)
__CPROVER_requires(__CPROVER_is_fresh(src, 8) && __CPROVER_is_fresh(pos, sizeof(size_t)) && __CPROVER_is_fresh(first, sizeof(unsigned)))
__CPROVER_requires(c1 >= 1 && c2 >= 1 && c1 <= 32 && c2 <= 32 && *pos < 64 && *pos + c1 + c2 <= 64 && *pos + c1 < 64)
__CPROVER_ensures(CUT_VALUE(*first, src, __CPROVER_old(*pos), c1, 32))
__CPROVER_ensures(CUT_VALUE_V(ib2, __CPROVER_return_value, src, __CPROVER_old(*pos) + c1, c2, 32))
__CPROVER_ensures(*pos == __CPROVER_old(*pos) + c1 + c2)
__CPROVER_assigns(*pos, *first);
void h_w_sb8_cut_twice(void) { const uint8_t* s; size_t* p; unsigned a, b; unsigned* f; w_sb8_cut_twice(s, p, a, b, f); VX_REACH_GUARD(); }

size_t w_ns64_cut_twice(size_t number, unsigned* shift, unsigned c1, unsigned c2, size_t* first)
__CPROVER_requires(__CPROVER_is_fresh(shift, sizeof(unsigned)) && __CPROVER_is_fresh(first, sizeof(size_t)))
__CPROVER_requires(c1 >= 1 && c2 >= 1 && c1 < 64 && c2 < 64 && *shift < 64 && *shift + c1 + c2 <= 64 && *shift + c1 < 64)
__CPROVER_ensures(NS_VALUE(*first, number, __CPROVER_old(*shift), c1))
__CPROVER_ensures(NS_VALUE_V(in2, __CPROVER_return_value, number, __CPROVER_old(*shift) + c1, c2))
__CPROVER_ensures(*shift == __CPROVER_old(*shift) + c1 + c2)
__CPROVER_assigns(*shift, *first);
void h_w_ns64_cut_twice(void) { size_t n; unsigned* p; unsigned a, b; size_t* f; w_ns64_cut_twice(n, p, a, b, f); VX_REACH_GUARD(); }

size_t w_ns64_reset_cut(size_t number, unsigned shift0, unsigned c)
__CPROVER_requires(shift0 < 64 && c < 64)
__CPROVER_ensures(NS_VALUE(__CPROVER_return_value, number, 0, c)) __CPROVER_assigns();
void h_w_ns64_reset_cut(void) { size_t n; unsigned a, b; w_ns64_reset_cut(n, a, b); VX_REACH_GUARD(); }
unsigned w_sb8_reset_cut(const uint8_t* src, size_t pos0, unsigned c)
__CPROVER_requires(__CPROVER_is_fresh(src, 8) && pos0 < 64 && c <= 32)
__CPROVER_ensures(CUT_VALUE(__CPROVER_return_value, src, 0, c, 32)) __CPROVER_assigns();
void h_w_sb8_reset_cut(void) { const uint8_t* s; size_t a; unsigned b; w_sb8_reset_cut(s, a, b); VX_REACH_GUARD(); }
vx_bool w_ns64_eos(size_t number, unsigned shift) __CPROVER_requires(shift <= 64) __CPROVER_ensures(__CPROVER_return_value == (shift == 64)) __CPROVER_assigns();
void h_w_ns64_eos(void) { size_t n; unsigned a; w_ns64_eos(n, a); VX_REACH_GUARD(); }
vx_bool w_sb8_eos(const uint8_t* src, size_t pos) __CPROVER_requires(__CPROVER_is_fresh(src, 8) && pos <= 64) __CPROVER_ensures(__CPROVER_return_value == (pos == 64)) __CPROVER_assigns();
void h_w_sb8_eos(void) { const uint8_t* s; size_t a; w_sb8_eos(s, a); VX_REACH_GUARD(); }

/* ---------- contract-only functions for the lemmas */
void c_metrics_make(size_t head_bits, size_t array_bits, size_t hash_size, size_t* out4)
__CPROVER_requires(hash_size >= 1 && hash_size <= 64 && array_bits < 64 && spec_head(head_bits, array_bits, hash_size * 8) < 64)
__CPROVER_ensures(out4[3] >= 2 && out4[1] >= 4 && out4[1] <= hash_size * 8 && (hash_size * 8 - out4[1]) % out4[3] == 0)
__CPROVER_ensures(out4[0] == ((size_t)1 << (out4[1] & 63)) && out4[2] == ((size_t)1 << (out4[3] & 63)))
__CPROVER_assigns(__CPROVER_object_whole(out4));
#define VX_N 8
uint32_t c_cut(const uint8_t* src, size_t* pos, unsigned count)
__CPROVER_requires(*pos < VX_N * 8 && count <= 32 && count <= VX_N * 8 - *pos)
__CPROVER_ensures(CUT_VALUE(__CPROVER_return_value, src, __CPROVER_old(*pos), count, 32))
__CPROVER_ensures(*pos == __CPROVER_old(*pos) + count)
__CPROVER_assigns(*pos);

/* (L1) the normalised layout consumes all hash bits exactly: head cut + L array cuts, L = (hash_bits - head)/array,
   end exactly at hash_bits; at every earlier level at least one full array cut remains (so cut's precondition
   "count <= remaining bits" holds at every level and eos() is reached exactly after level L) */
void h_lemma_layout_exact(void) {
    size_t head, array, hash_size, m[4], level;
    __CPROVER_assume(hash_size >= 1 && hash_size <= 64 && array < 64 && spec_head(head, array, hash_size * 8) < 64);
    c_metrics_make(head, array, hash_size, m);
    size_t hash_bits = hash_size * 8, L = (hash_bits - m[1]) / m[3];
    __CPROVER_assert(m[1] + L * m[3] == hash_bits, "C28.lemma: head bits + levels * array bits == hash bits exactly");
    __CPROVER_assume(level < L);
    size_t consumed = m[1] + level * m[3];       /* bits consumed after the head cut and `level` array cuts */
    __CPROVER_assert(consumed < hash_bits && hash_bits - consumed >= m[3], "C28.lemma: before the last level a full array cut always remains (no eos, cut in range)");
    VX_REACH_GUARD();
}
/* (L2) equal hashes follow the same path: the cut contract is functional in (source bits, position, count) */
void h_lemma_same_path(void) {
    uint8_t h1[VX_N], h2[VX_N]; size_t p1, p2; unsigned c;
    __CPROVER_assume(__CPROVER_forall { unsigned k; (k < VX_N) ==> (h1[k] == h2[k]) });
    __CPROVER_assume(p1 == p2 && p1 < VX_N * 8 && c <= 32 && c <= VX_N * 8 - p1);
    uint32_t r1 = c_cut(h1, &p1, c), r2 = c_cut(h2, &p2, c);
    __CPROVER_assert(r1 == r2 && p1 == p2, "C28.lemma: equal hashes give equal slots at every level");
    VX_REACH_GUARD();
}
/* (L3) induction step of divergence: if two hashes agree on all bits below pos and their cuts at pos agree, they agree
   on all bits below pos+count. By induction over the levels (L1: the levels tile [0, hash_bits) exactly) two hashes
   whose slots agree at every level are equal; contrapositive: distinct hashes diverge at some level before eos. */
void h_lemma_divergence_step(void) {
    uint8_t h1[VX_N], h2[VX_N]; size_t p1, p2; unsigned c; size_t pos;
    __CPROVER_assume(pos < VX_N * 8 && c <= 32 && c <= VX_N * 8 - pos);
    __CPROVER_assume(__CPROVER_forall { unsigned j; (j < VX_N * 8) ==> ((j < pos) ==> (SRCBIT(h1, j) == SRCBIT(h2, j))) });
    p1 = pos; p2 = pos;
    uint32_t r1 = c_cut(h1, &p1, c), r2 = c_cut(h2, &p2, c);
    __CPROVER_assume(r1 == r2);
    __CPROVER_assert(__CPROVER_forall { unsigned j2; (j2 < VX_N * 8) ==> ((j2 < pos + c) ==> (SRCBIT(h1, j2) == SRCBIT(h2, j2))) },
                     "C28.lemma: agreeing prefixes + agreeing slot => agreeing longer prefix (divergence induction step)");
    VX_REACH_GUARD();
}
/* (L3') conclusion at the end of the string: all bits agree => the hashes are byte-wise equal (bitwise_compare == 0) */
void h_lemma_divergence_end(void) {
    uint8_t h1[VX_N], h2[VX_N];
    __CPROVER_assume(__CPROVER_forall { unsigned j; (j < VX_N * 8) ==> (SRCBIT(h1, j) == SRCBIT(h2, j)) });
    __CPROVER_assert(__CPROVER_forall { unsigned k; (k < VX_N) ==> (h1[k] == h2[k]) }, "C28.lemma: hashes agreeing on every bit are equal");
    VX_REACH_GUARD();
}
