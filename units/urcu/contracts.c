/* unit urcu — C04 (partial) and C05 (partial) */
#include <vx_c.h>
#define CONTROL 0x80000000u
#define NEST 0x7fffffffu
static int nondet_int(void) { int v; return v; }
static uint32_t nondet_u32(void) { uint32_t v; return v; }
static uint64_t nondet_u64(void) { uint64_t v; return v; }
uint32_t* w_global(void); uint32_t* w_ctl(unsigned); size_t* w_tid(unsigned); void w_link(unsigned);
void w_access_lock(void); void w_access_unlock(void); vx_bool w_is_locked(void); vx_bool w_check_grace_period(unsigned); void w_flip_and_wait(void);
uint64_t* w_epoch(void); void w_set_capacity(size_t); void w_retire_ptr(void*); void w_synchronize(void); void w_clear_buffer(uint64_t); void w_destruct(void);
int vx_mode;        /* 1: flip_and_wait under interference of reader threads */
unsigned vx_wit; int vx_wit_ok_seen; int vx_budget;
unsigned vx_nrec;

/* ---- C04: reader-side words. Control word = phase bit (bit 31) + nesting depth (low 31 bits). */
void h_access_lock(void) {
    uint32_t g = nondet_u32(), c = nondet_u32();
    __CPROVER_assume((g & NEST) == 1);                      /* the global word always carries depth 1 (initial value 1, only the phase bit is flipped) */
    __CPROVER_assume((c & NEST) < NEST);                    /* nesting depth does not overflow 31 bits */
    *w_global() = g; *w_ctl(0) = c;
    w_access_lock();
    uint32_t c1 = *w_ctl(0);
    if ((c & NEST) == 0) __CPROVER_assert(c1 == g, "C04.access_lock: the outermost lock installs the current global control word (depth 1, current phase)");
    else __CPROVER_assert((c1 & NEST) == (c & NEST) + 1 && (c1 & CONTROL) == (c & CONTROL), "C04.access_lock: a nested lock adds one to the depth and keeps the phase of the outermost lock");
    __CPROVER_assert((c1 & NEST) != 0 && w_is_locked(), "C04.access_lock: afterwards the thread is inside a critical section");
    __CPROVER_assert(*w_global() == g, "C04.access_lock: the global word is not written by readers");
    VX_REACH_GUARD();
}
void h_access_unlock(void) {
    uint32_t c = nondet_u32(); __CPROVER_assume((c & NEST) >= 1);
    *w_ctl(0) = c;
    vx_bool l0 = w_is_locked();
    w_access_unlock();
    uint32_t c1 = *w_ctl(0);
    __CPROVER_assert(l0, "C04.is_locked: true inside a critical section");
    __CPROVER_assert((c1 & NEST) == (c & NEST) - 1 && (c1 & CONTROL) == (c & CONTROL), "C04.access_unlock: subtracts one from the depth and never touches the phase bit");
    __CPROVER_assert(w_is_locked() == ((c1 & NEST) != 0), "C04.is_locked: true iff the depth is non-zero (nested sections stay locked until the outermost unlock)");
    VX_REACH_GUARD();
}
void h_check_grace_period(void) {
    uint32_t g = nondet_u32(), c = nondet_u32();
    *w_global() = g; *w_ctl(1) = c;
    vx_bool r = w_check_grace_period(1);
    __CPROVER_assert((r != 0) == (((c & NEST) != 0) && ((c & CONTROL) != (g & CONTROL))), "C04.check_grace_period: a reader must be waited for iff it is inside a critical section entered in the previous phase");
    VX_REACH_GUARD();
}
/* flip_and_wait: the writer may return only after it has SEEN the witness reader either detached, outside a critical
   section, or inside one that was entered after the flip. Readers interfere before every atomic access: the witness only
   changes its own word by the reader protocol (lock/unlock as above, against the global word as it is now). */
static void reader_step(unsigned i) {
    uint32_t c = *w_ctl(i); int k = nondet_int() & 3;
    if (k == 0 && (c & NEST) == 0) *w_ctl(i) = *w_global();             /* outermost lock */
    else if (k == 1 && (c & NEST) != 0 && (c & NEST) < 1000) *w_ctl(i) = c + 1;   /* nested lock */
    else if (k == 2 && (c & NEST) != 0) *w_ctl(i) = c - 1;               /* unlock */
    else if (k == 3 && (c & NEST) == 0) *w_tid(i) = (nondet_int() & 1) ? 0 : 7 + i;   /* detach / re-attach outside a critical section */
}
void vx_env(const void* addr) {
    if (vx_mode != 1) return;
    if (vx_budget > 0 && (nondet_int() & 1)) { vx_budget--; unsigned i = (unsigned)nondet_int() % 3; if (i < vx_nrec) reader_step(i); }
}
void vx_loaded_any(const void* addr, uint64_t v) {
    if (vx_mode != 1) return;
    if (addr == (const void*)w_tid(vx_wit) && v == 0) vx_wit_ok_seen = 1;                 /* seen detached */
    if (addr == (const void*)w_ctl(vx_wit)) {
        uint32_t c = (uint32_t)v, g = *w_global();
        if ((c & NEST) == 0 || (c & CONTROL) == (g & CONTROL)) vx_wit_ok_seen = 1;          /* seen outside a critical section, or inside one entered in the new phase */
    }
}
void h_flip_and_wait(void) {
    unsigned n = (unsigned)nondet_int() % 4; __CPROVER_assume(n >= 1 && n <= 3); vx_nrec = n; w_link(n);
    uint32_t g = nondet_u32(); __CPROVER_assume((g & NEST) == 1); *w_global() = g;
    for (unsigned i = 0; i < 3; ++i) { uint32_t c = nondet_u32(); __CPROVER_assume((c & NEST) < 1000); *w_ctl(i) = c; *w_tid(i) = (nondet_int() & 1) ? 0 : 7 + i; }
    unsigned w = (unsigned)nondet_int() % 3; __CPROVER_assume(w < n); vx_wit = w;
    int b = nondet_int(); __CPROVER_assume(b >= 0 && b <= 4); vx_budget = b;
    uint32_t g0 = *w_global();
    vx_mode = 1;                      /* the real code reads reader words only after the fetch_xor, so every observation is post-flip */
    w_flip_and_wait();
    vx_mode = 0;
    __CPROVER_assert(*w_global() == (g0 ^ CONTROL), "C04.flip_and_wait: flips exactly the phase bit of the global control word");
    __CPROVER_assert(vx_wit_ok_seen, "C04.flip_and_wait: returns only after every reader was SEEN detached, outside a critical section, or inside one entered in the new phase");
    VX_REACH_GUARD();
}

/* ================= C05: general_buffered (sequential core; the buffer is a ghost FIFO = the assumed queue contract) ================= */
#ifndef VX_BCAP
#define VX_BCAP 3
#endif
void* b_ptr[VX_BCAP]; uint64_t b_epoch[VX_BCAP]; unsigned b_n; int b_counting;      /* b_counting: size() counts items (item_counter) or is always 0 (default) */
char objs[16];            /* object identities: &objs[k] */
int disposed[16]; int flips; int flips_at_retire[16]; int retired_in_grace[16];
static int idx_of(void* p) { for (int k = 0; k < 16; ++k) if (p == (void*)&objs[k]) return k; return -1; }
unsigned next_x = 8;      /* objects 8.. are retired by OTHER threads */
int b_interfere; int pushed_by_others[16];
uint64_t* w_epoch(void);
/* other threads retire objects concurrently (the buffer is shared and clear_buffer runs outside the lock): before any buffer access of the
   code under check they may push up to capacity objects tagged with the current epoch */
static void others_push(void) {
    if (!b_interfere) return;
    for (unsigned i = 0; i < VX_BCAP; ++i) if ((nondet_int() & 1) && b_n < VX_BCAP && next_x < 16) { unsigned x = next_x++; pushed_by_others[x] = 1; flips_at_retire[x] = flips; b_ptr[b_n] = &objs[x]; b_epoch[b_n] = *w_epoch(); b_n++; }
}
int vxb_push(void* p, uint64_t epoch) { others_push(); if (b_n >= VX_BCAP) return 0; b_ptr[b_n] = p; b_epoch[b_n] = epoch; b_n++; return 1; }
int vxb_pop(void** p, uint64_t* epoch) { others_push(); if (!b_n) return 0; *p = b_ptr[0]; *epoch = b_epoch[0]; for (unsigned i = 1; i < VX_BCAP; ++i) if (i < b_n) { b_ptr[i - 1] = b_ptr[i]; b_epoch[i - 1] = b_epoch[i]; } b_n--; return 1; }
size_t vxb_size(void) { return b_counting ? b_n : 0; }
void vx_flip(void) {
    flips++;
    /* another thread retires an object while this grace period is in progress: it tags it with the CURRENT epoch */
    if ((nondet_int() & 1) && b_n < VX_BCAP && next_x < 16) { unsigned x = next_x++; retired_in_grace[x] = 1; flips_at_retire[x] = flips; vxb_push(&objs[x], *w_epoch()); }
}
void vf_dispose(void* p) {
    int k = idx_of(p);
    __CPROVER_assert(k >= 0, "C05.no_invention: the disposer is called only on retired objects");
    if (k >= 0) {
        disposed[k]++;
        __CPROVER_assert(disposed[k] <= 1, "C05.at_most_once: a retired object is given to its disposer at most once");
        __CPROVER_assert(flips - flips_at_retire[k] >= 2 && !retired_in_grace[k], "C04.grace: an object is disposed only after a full grace period (two phase flips) that started after its retirement");
    }
}
/* CONTRACT of general_buffered::synchronize() (discharged for the real code in group `synchronize`): one full grace
   period; every object retired before it is disposed exactly once; objects retired during it are kept; epoch + 1 */
void vx_synchronize_contract(void) {
    uint64_t E = *w_epoch(); *w_epoch() = E + 1;
    vx_flip(); vx_flip();
    void* p; uint64_t e;
    unsigned n = b_n;
    for (unsigned i = 0; i < VX_BCAP + 2; ++i) if (i < n && b_n > 0 && b_epoch[0] <= E) { vxb_pop(&p, &e); vf_dispose(p); }
}
static int in_buffer(void* p) { int c = 0; for (unsigned i = 0; i < VX_BCAP; ++i) if (i < b_n && b_ptr[i] == p) c++; return c; }
uint64_t b_epoch0[VX_BCAP];
static uint64_t b_epoch_at_setup(unsigned k) { return b_epoch0[k]; }
static void b_setup(void) {
    b_counting = nondet_int() & 1;
    unsigned n = (unsigned)nondet_int() % (VX_BCAP + 1); b_n = n;
    uint64_t E = nondet_u64(); __CPROVER_assume(E < ((uint64_t)1 << 62)); *w_epoch() = E;
    for (unsigned i = 0; i < VX_BCAP; ++i) { b_ptr[i] = &objs[i]; uint64_t e = nondet_u64(); __CPROVER_assume(e <= E); b_epoch[i] = e; }   /* objects 0..2: retired earlier, in FIFO (non-decreasing epoch) order */
    for (unsigned i = 1; i < VX_BCAP; ++i) __CPROVER_assume(b_epoch[i - 1] <= b_epoch[i]);
    for (unsigned i = 0; i < VX_BCAP; ++i) b_epoch0[i] = b_epoch[i];
    w_set_capacity(VX_BCAP);
}
void h_retire_ptr(void) {
    b_setup(); unsigned n0 = b_n;
    void* T = &objs[5]; flips_at_retire[5] = flips;
    w_retire_ptr(T);
    __CPROVER_assert(disposed[5] + in_buffer(T) == 1, "C05.retire: after retire_ptr the object is in the buffer once or was disposed once (also when the buffer was full)");
    for (unsigned k = 0; k < VX_BCAP; ++k) __CPROVER_assert(disposed[k] + in_buffer(&objs[k]) == (k < n0 ? 1 : 0), "C05.retire: earlier retired objects are neither lost nor duplicated");
    for (int k = 8; k < 16; ++k) if (retired_in_grace[k]) __CPROVER_assert(disposed[k] == 0 && in_buffer(&objs[k]) == 1, "C04.grace: an object retired by another thread during the grace period is kept for a later one");
    VX_REACH_GUARD();
}
void h_synchronize(void) {
    b_setup(); unsigned n0 = b_n; uint64_t E = *w_epoch();
    w_synchronize();
    __CPROVER_assert(flips >= 2, "C05.synchronize: waits for a full grace period (two phase flips)");
    for (unsigned k = 0; k < VX_BCAP; ++k) if (k < n0) __CPROVER_assert(disposed[k] == 1 && in_buffer(&objs[k]) == 0, "C05.synchronize: every object retired before the call is disposed exactly once");
    for (int k = 8; k < 16; ++k) if (retired_in_grace[k]) __CPROVER_assert(disposed[k] == 0 && in_buffer(&objs[k]) == 1, "C04.grace: an object retired by another thread during the grace period is kept for a later one");
    __CPROVER_assert(*w_epoch() == E + 1, "C05.synchronize: advances the epoch by one");
    VX_REACH_GUARD();
}
void h_clear_buffer(void) {
    b_setup(); unsigned n0 = b_n; uint64_t e = nondet_u64(); __CPROVER_assume(e < *w_epoch());
    flips = 2;      /* called after a grace period */
    b_interfere = nondet_int() & 1;      /* with and without other threads retiring into the shared buffer meanwhile */
    w_clear_buffer(e);
    b_interfere = 0;
    for (unsigned k = 0; k < VX_BCAP; ++k) if (k < n0) {
        if (b_epoch_at_setup(k) <= e) __CPROVER_assert(disposed[k] == 1 && in_buffer(&objs[k]) == 0, "C05.clear_buffer: disposes exactly the objects whose epoch is not later than the given one");
        else __CPROVER_assert(disposed[k] + in_buffer(&objs[k]) == 1, "C05.clear_buffer: younger objects stay in the buffer exactly once (including the re-pushed first one, also when other threads filled the buffer meanwhile), unless the re-push itself ran a further grace period that disposed them once");
    }
    for (int k = 8; k < 16; ++k) if (pushed_by_others[k]) __CPROVER_assert(disposed[k] + in_buffer(&objs[k]) == 1, "C05.clear_buffer: an object retired by another thread meanwhile is in the buffer once or was disposed once");
    VX_REACH_GUARD();
}
void h_destruct(void) {
    b_setup(); unsigned n0 = b_n;
    flips = 2;      /* readers are gone when the singleton is destroyed */
    w_destruct();
    for (unsigned k = 0; k < VX_BCAP; ++k) if (k < n0) __CPROVER_assert(disposed[k] == 1, "C05.destruct: destruction of the singleton disposes every buffered object exactly once");
    __CPROVER_assert(b_n == 0, "C05.destruct: nothing is left in the buffer");
    VX_REACH_GUARD();
}
