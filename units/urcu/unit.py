# unit urcu — C04 (partial: the functions the grace-period argument stands on) and C05 (partial: sequential core of general_buffered)
GP = 'cds/urcu/details/gp.h'
GPB = 'cds/urcu/details/gpb.h'
RC = dict(lit='rcu_class::c_nNestMask', to='general_purpose_rcu::c_nNestMask', count='1+', why='typedef name used as a scope is not resolved by the front end; rcu_class is general_purpose_rcu for the gp flavours')
MM = dict(re=r'memory_model::memory_order_(\w+)', to=r'atomics::memory_order_\1', count='0+', why='typedef scope')


def frag(path, name, anchor, rewrites=None, **kw):
    d = dict(kind='fragment', path=path, name=name, anchor=anchor, rewrites=rewrites or [])
    d.update(kw)
    return d


stage = [
    dict(kind='shadow', path='cds/gc/details/retired_ptr.h', rewrites=[
        dict(re=r': m_p\( (.+?)\)\s*, m_funcFree\( (.+?) \)\s*\{\}', to=r': m_funcFree( \2 ) { m_p = \1; }', count=4, why='initialiser of an anonymous-union member is rejected by the front end; same stores in the body'),
        dict(re=r'template <typename Func, typename T>\s*static inline cds::gc::details::retired_ptr make_retired_ptr\( T \* p \)\s*\{\s*return[^\n]*\n\s*\}', to='', count=1, why='lambda (unsupported); not on a verified path'),
    ]),
    frag('cds/urcu/details/base.h', 'general_purpose_rcu', r'struct general_purpose_rcu(?= \{)', semicolon=True),
    frag('cds/urcu/details/base.h', 'epoch_retired_ptr', r'struct epoch_retired_ptr: public retired_ptr', semicolon=True),
    frag(GP, 'access_lock', r'inline void gp_thread_gc<RCUtag>::access_lock\(\)', body_only=True, rewrites=[RC,
        dict(lit='gp_singleton<RCUtag>::instance()->global_control_word(', to='vx_singleton()->global_control_word(', count=1, why='singleton accessor of the class template -> the shell instance')]),
    frag(GP, 'access_unlock', r'inline void gp_thread_gc<RCUtag>::access_unlock\(\)', body_only=True, rewrites=[RC]),
    frag(GP, 'is_locked', r'inline bool gp_thread_gc<RCUtag>::is_locked\(\)', body_only=True, rewrites=[RC]),
    frag(GP, 'check_grace_period', r'inline bool gp_singleton<RCUtag>::check_grace_period\(', body_only=True),
    frag(GP, 'flip_and_wait', r'inline void gp_singleton<RCUtag>::flip_and_wait\( Backoff& \w+ \)', body_only=True),
    frag('cds/urcu/details/gp_decl.h', 'global_control_word', r'uint32_t global_control_word\( atomics::memory_order \w+ \) const'),
    frag(GPB, 'clear_buffer', r'void clear_buffer\( uint64_t \w+ \)', rewrites=[
        dict(lit='push_buffer( std::move(p));', to='push_buffer( p );', count='0+', why='std::move / rvalue reference parameter: inside the callee a named T&& is an lvalue')]),
    frag(GPB, 'push_buffer', r'bool push_buffer\( epoch_retired_ptr&& \w+ \)', rewrites=[
        dict(lit='bool push_buffer( epoch_retired_ptr&& ep )', to='bool push_buffer( epoch_retired_ptr& ep )', count=1, why='rvalue reference parameter'),
        dict(lit='synchronize();', to='vx_synchronize_contract();', count=1, why='callee replaced by its CONTRACT (the postcondition discharged in group synchronize): cuts the recursion clear_buffer -> push_buffer -> synchronize -> clear_buffer')]),
    frag(GPB, 'retire_ptr', r'virtual void retire_ptr\( retired_ptr& \w+ \) override', rewrites=[
        dict(lit='virtual void retire_ptr( retired_ptr& p ) override', to='void retire_ptr( retired_ptr& p )', count=1, why='virtual/override in a shell without the base class'),
        dict(lit='push_buffer( epoch_retired_ptr( p, m_nCurEpoch.load( atomics::memory_order_relaxed )));', to='{ epoch_retired_ptr vx_ep( p, m_nCurEpoch.load( atomics::memory_order_relaxed )); push_buffer( vx_ep ); }', count=1,
             why='temporary bound to an rvalue reference -> named object')]),
    frag(GPB, 'synchronize0', r'void synchronize\(\)\s*\{\s*epoch_retired_ptr ep'),
    frag(GPB, 'synchronize1', r'bool synchronize\( epoch_retired_ptr& \w+ \)'),
    frag(GPB, 'capacity', r'size_t capacity\(\) const'),
    frag(GPB, 'dtor_body', r'~general_buffered\(\)', body_only=True, rewrites=[
        dict(lit='std::numeric_limits< uint64_t >::max()', to='UINT64_MAX', count=1, why='numeric_limits (libstdc++) -> the same constant')]),
]
for f in stage:
    if f.get('path') == GPB:
        f['rewrites'] = [MM] + f['rewrites']


def G(name, harness, props, fns, expect, unwind=None, bounded=None, timeout=600, defines=(), extra=None):
    d = dict(name=name, harness=harness, enforce=[], dfcc=False, functions=fns, expect=expect, props=props, timeout=timeout, unwind=unwind, bounded=bounded, defines=list(defines))
    d.update(extra or {})
    return d


UNIT = dict(
    properties=['C04', 'C05'],
    stage=stage,
    decl_rules=[
        dict(path='cds/urcu/details/gp_decl.h', re=r'atomics::atomic<uint32_t>\s+m_nAccessControl ;', count=1),
        dict(path='cds/urcu/details/gp_decl.h', re=r'atomics::atomic<uint32_t>\s+m_nGlobalControl;', count=1),
        dict(path='cds/urcu/details/gp_decl.h', re=r': m_nGlobalControl\(1\)', count=1),
        dict(path=GPB, re=r'buffer_type\s+m_Buffer;\s*atomics::atomic<uint64_t>\s+m_nCurEpoch;\s*lock_type\s+m_Lock;\s*size_t const\s+m_nCapacity;', count=1),
        dict(path='cds/urcu/details/base.h', re=r'atomics::atomic<OS::ThreadId> thread_id_\{ cds::OS::c_NullThreadId \};', count=1),
    ],
    cxx=['shim.cpp'], c=['contracts.c'], cxxflags=['-Dconstexpr=', '-Dnoexcept=', '-Dexplicit='],
    sabotage=[
        dict(name='nested_lock_resets_phase', quick=True, props=['C04'], target='access_lock', lit='pRec->m_nAccessControl.store( tmp + 1, atomics::memory_order_relaxed );',
             to='pRec->m_nAccessControl.store( vx_singleton()->global_control_word(atomics::memory_order_relaxed) + ( tmp & general_purpose_rcu::c_nNestMask ), atomics::memory_order_relaxed );', count=1,
             groups=['access_lock'], expect_fail=r'C04\.access_lock: a nested lock'),
        dict(name='grace_check_ignores_phase', props=['C04'], target='check_grace_period', lit='&& (( v ^ m_nGlobalControl.load( atomics::memory_order_relaxed )) & ~general_purpose_rcu::c_nNestMask );', to='&& false;', count=1,
             groups=['check_grace_period', 'flip_and_wait'], expect_fail=r'C04\.(check_grace_period|flip_and_wait)'),
        dict(name='epoch_bumped_after_flips', quick=True, props=['C04', 'C05'], target='synchronize1', re=r'nEpoch = m_nCurEpoch\.fetch_add\( 1, atomics::memory_order_relaxed \);\s*flip_and_wait\(\);\s*flip_and_wait\(\);',
             to='flip_and_wait(); flip_and_wait(); nEpoch = m_nCurEpoch.fetch_add( 1, atomics::memory_order_relaxed );', count=1, groups=['synchronize'], expect_fail=r'C04\.grace'),
        dict(name='single_flip', props=['C04', 'C05'], target='synchronize1', re=r'flip_and_wait\(\);\s*flip_and_wait\(\);', to='flip_and_wait();', count=1, groups=['synchronize'], expect_fail=r'C0[45]\.'),
        dict(name='push_buffer_double_free', quick=True, props=['C05'], target='push_buffer', lit='if ( !bPushed ) {', to='if ( true ) {', count=1, groups=['retire_ptr'], expect_fail=r'C05\.at_most_once'),
    ],
    trusted_base=[
        'the two-flip grace-period ARGUMENT (why two phase flips suffice) is a paper argument; only its per-function premises are checked',
        'reader interference model for flip_and_wait: a reader changes only its own control word, by the lock/unlock protocol, and its thread id only outside a critical section',
        'buffer = ghost FIFO (the queue contract, C07); lock = no-op (callers of synchronize(ep) serialised by m_Lock: assumed); inner synchronize() of push_buffer replaced by its contract',
        'SC atomic<T> stub: the seq_cst fence in access_lock and all acquire/release orders have no effect',
        'shell structs for gp_thread_gc / gp_singleton / general_buffered; CBMC 6.11 C++ front end',
    ],
    assumptions=['C04 is decided only for these premises: control-word arithmetic (all 2^32 words), the wait condition, flip_and_wait returning only after each reader was seen safe (<= 3 records, <= 4 wait iterations), epoch tagging vs. grace period in general_buffered',
                 'not covered: signal-handling flavour (sh.h, compiled out of the baseline build), general_instant / general_threaded wrappers, raw_ptr / exempt_ptr lifetimes, the dispose thread handshake',
                 'C05: buffer capacity 3, counting and non-counting buffers, <= 1 concurrent retire per flip'],
    dropped=['template / virtual dispatch context of the RCU singleton classes', 'rvalue-reference parameters', 'typedef-scope lookups'],
    groups=[
        G('access_lock', 'h_access_lock', ['C04'], ['gp_thread_gc::access_lock', 'gp_singleton::global_control_word'], [r'C04\.access_lock']),
        G('access_unlock', 'h_access_unlock', ['C04'], ['gp_thread_gc::access_unlock', 'gp_thread_gc::is_locked'], [r'C04\.access_unlock', r'C04\.is_locked']),
        G('check_grace_period', 'h_check_grace_period', ['C04'], ['gp_singleton::check_grace_period'], [r'C04\.check_grace_period']),
        G('flip_and_wait', 'h_flip_and_wait', ['C04'], ['gp_singleton::flip_and_wait'], [r'C04\.flip_and_wait'], unwind=5, bounded='<= 3 thread records, <= 4 wait iterations per record (memoryless spin; longer waits are cut, not checked)', extra=dict(unwinding_assertions=False)),
        G('retire_ptr', 'h_retire_ptr', ['C05', 'C04'], ['general_buffered::retire_ptr', 'push_buffer', 'synchronize', 'clear_buffer'], [r'C05\.retire', r'C04\.grace'], unwind=18, defines=['VX_BCAP=3'],
          bounded='buffer capacity 3, <= 1 object retired by another thread during each flip; the nested synchronize() inside push_buffer is replaced by its contract'),
        G('synchronize', 'h_synchronize', ['C05', 'C04'], ['general_buffered::synchronize()', 'synchronize(ep)', 'clear_buffer'], [r'C05\.synchronize', r'C04\.grace'], unwind=18, defines=['VX_BCAP=3'],
          bounded='buffer capacity 3; the nested synchronize() inside push_buffer is replaced by its contract'),
        G('clear_buffer', 'h_clear_buffer', ['C05'], ['general_buffered::clear_buffer', 'push_buffer'], [r'C05\.clear_buffer'], unwind=18, defines=['VX_BCAP=3'], bounded='buffer capacity 3'),
        G('destruct', 'h_destruct', ['C05'], ['general_buffered::~general_buffered'], [r'C05\.destruct'], unwind=18, defines=['VX_BCAP=3'], bounded='buffer capacity 3'),
    ],
)
