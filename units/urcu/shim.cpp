// unit urcu — C04/C05 (general-purpose user-space RCU). Real text: access_lock / access_unlock / is_locked /
// check_grace_period / flip_and_wait (bodies from cds/urcu/details/gp.h), global_control_word (gp_decl.h), the constants
// struct general_purpose_rcu and struct epoch_retired_ptr (base.h), clear_buffer / push_buffer / retire_ptr / synchronize /
// capacity / destructor body of general_buffered (gpb.h), retired_ptr.h (shadow).
// Shell: thread record, singleton, thread list, buffer (ghost FIFO = assumed queue contract), lock (no-op), grace-period stub.
#include <cds/details/defs.h>
extern "C" void vx_env(const void* addr);
extern "C" void vx_loaded_any(const void* addr, uint64_t v);
#define VX_ATOMIC_ENV(a) vx_env((const void*)(a))
template <typename T> static inline T vx_ld(const T* a, T v) { vx_loaded_any((const void*)a, (uint64_t)v); return v; }
#define VX_ATOMIC_LOADED(a, v) vx_ld(a, v)
#include <cds/algo/atomic.h>
#include <cds/os/thread.h>
#include <cds/algo/backoff_strategy.h>
#include <mutex>
#include <utility>
#include <cds/gc/details/retired_ptr.h>
namespace cds { namespace urcu {
    using cds::gc::details::retired_ptr;
#include <general_purpose_rcu.inc>
#include <epoch_retired_ptr.inc>
}}
using namespace cds; using namespace cds::urcu;
#define CDS_COMPILER_RW_BARRIER
struct thread_record { atomics::atomic<uint32_t> m_nAccessControl; struct list_t { thread_record* next_; atomics::atomic<OS::ThreadId> thread_id_; } m_list; };
struct vx_backoff { void operator()() {} void reset() {} };
struct shell_gp {
    atomics::atomic<uint32_t> m_nGlobalControl;
    struct tl { thread_record* h; thread_record* head( atomics::memory_order ) const { return h; } } m_ThreadList;
#include <global_control_word.inc>
    bool check_grace_period( thread_record * pRec ) const
#include <check_grace_period.inc>
    template <class Backoff> void flip_and_wait( Backoff& bkoff )
#include <flip_and_wait.inc>
};
static shell_gp g_gp; static thread_record g_rec[3]; static thread_record* vx_my = &g_rec[0];
static shell_gp* vx_singleton() { return &g_gp; }
struct shell_thread_gc {
    static thread_record* get_thread_record() { return vx_my; }
    static void access_lock()
#include <access_lock.inc>
    static void access_unlock()
#include <access_unlock.inc>
    static bool is_locked()
#include <is_locked.inc>
};
// ---- general_buffered
extern "C" void vx_synchronize_contract(void);
extern "C" { int vxb_push(void* p, uint64_t epoch); int vxb_pop(void** p, uint64_t* epoch); size_t vxb_size(void); void vx_flip(void); void vf_dispose(void* p); }
struct vx_buffer {
    bool push( epoch_retired_ptr& ep ) { return vxb_push( ep.m_p, ep.m_nEpoch ) != 0; }
    bool pop( epoch_retired_ptr& ep ) { void* p; uint64_t e; if ( !vxb_pop( &p, &e )) return false; ep.m_p = p; ep.m_funcFree = vf_dispose; ep.m_nEpoch = e; return true; }
    size_t size() const { return vxb_size(); }
};
struct shell_gpb {
    typedef std::mutex lock_type;
    vx_buffer m_Buffer; atomics::atomic<uint64_t> m_nCurEpoch; lock_type m_Lock; size_t m_nCapacity;
    void flip_and_wait() { vx_flip(); }
#include <clear_buffer.inc>
#include <push_buffer.inc>
#include <retire_ptr.inc>
#include <synchronize0.inc>
#include <synchronize1.inc>
#include <capacity.inc>
    void vx_dtor()
#include <dtor_body.inc>
};
static shell_gpb g_b;
extern "C" {
uint32_t* w_global(void) { return &g_gp.m_nGlobalControl.v_; }
uint32_t* w_ctl(unsigned i) { return &g_rec[i].m_nAccessControl.v_; }
size_t* w_tid(unsigned i) { return &g_rec[i].m_list.thread_id_.v_; }
void w_link(unsigned n) { for (unsigned i = 0; i < 3; ++i) g_rec[i].m_list.next_ = (i + 1 < n) ? &g_rec[i + 1] : nullptr; g_gp.m_ThreadList.h = n ? &g_rec[0] : nullptr; }
void w_access_lock(void) { shell_thread_gc::access_lock(); }
void w_access_unlock(void) { shell_thread_gc::access_unlock(); }
bool w_is_locked(void) { return shell_thread_gc::is_locked(); }
bool w_check_grace_period(unsigned i) { return g_gp.check_grace_period(&g_rec[i]); }
void w_flip_and_wait(void) { vx_backoff b; g_gp.flip_and_wait<vx_backoff>(b); }
uint64_t* w_epoch(void) { return &g_b.m_nCurEpoch.v_; }
void w_set_capacity(size_t c) { g_b.m_nCapacity = c; }
void w_retire_ptr(void* p) { retired_ptr rp(p, vf_dispose); g_b.retire_ptr(rp); }
void w_synchronize(void) { g_b.synchronize(); }
void w_clear_buffer(uint64_t e) { g_b.clear_buffer(e); }
void w_destruct(void) { g_b.vx_dtor(); }
}
