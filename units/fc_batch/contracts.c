/* unit fc_batch — property C10. One combiner pass over a batch of published requests:
   (1) fc_process completes records only in (push, pop) pairs; the pop receives exactly the pushed value and is not "empty";
       a pair is same-end, or the deque is empty — "a push at one end is collided with a pop at the other end only when the
       deque is empty"; fc_process never touches the deque; no record is completed twice;
   (2) the kernel then applies fc_apply to every record not yet done, in list order [kernel behaviour = C23, assumed];
   (3) the whole batch equals a sequential execution on a reference deque: the collided pairs first (push; pop), then the
       remaining requests in list order — every pop result, every empty flag and the final contents agree. */
#include <vx_c.h>
#ifndef VX_N
#define VX_N 3
#endif
#define DQ_MAX 8
static int nondet_int(void) { int v; return v; }
enum { PUSH_FRONT = 0, PUSH_FRONT_MOVE, PUSH_BACK, PUSH_BACK_MOVE, POP_FRONT, POP_BACK, CLEAR, NOPS };
unsigned w_op_base(void); void w_set_deque(const int*, unsigned); unsigned w_get_deque(int*); void w_set_rec(unsigned, unsigned, const int*, int*);
vx_bool w_rec_empty(unsigned); vx_bool w_rec_done(unsigned); void w_fc_process(unsigned); void w_fc_apply(unsigned);
int done_cnt[VX_N]; unsigned done_order[2 * VX_N]; unsigned n_done; unsigned n_collide;
void vx_done(unsigned idx) { if (idx < VX_N) done_cnt[idx]++; if (n_done < 2 * VX_N) done_order[n_done] = idx; n_done++; }
void vx_collide_stat(void) { n_collide++; }
/* reference deque */
int ref[DQ_MAX]; unsigned refn;
static void ref_push_front(int v) { for (unsigned i = refn; i > 0; --i) ref[i] = ref[i - 1]; ref[0] = v; refn++; }
static void ref_push_back(int v) { ref[refn++] = v; }
static int ref_pop_front(int* empty) { if (!refn) { *empty = 1; return 0; } *empty = 0; int v = ref[0]; for (unsigned i = 1; i < refn; ++i) ref[i - 1] = ref[i]; refn--; return v; }
static int ref_pop_back(int* empty) { if (!refn) { *empty = 1; return 0; } *empty = 0; return ref[--refn]; }
static int is_push(int op) { return op <= PUSH_BACK_MOVE; }
static int is_pop(int op) { return op == POP_FRONT || op == POP_BACK; }
static int front_end(int op) { return op == PUSH_FRONT || op == PUSH_FRONT_MOVE || op == POP_FRONT; }

int ops[VX_N], vals[VX_N], outs[VX_N]; int init[3]; unsigned initn, N;
static void setup(void) {
    unsigned n; __CPROVER_assume(n >= 1 && n <= VX_N); N = n;
    unsigned k; __CPROVER_assume(k <= 3); initn = k;
    for (unsigned i = 0; i < 3; ++i) init[i] = nondet_int();
    w_set_deque(init, initn);
    refn = initn; for (unsigned i = 0; i < 3; ++i) ref[i] = init[i];
    for (unsigned i = 0; i < VX_N; ++i) {
        int op = nondet_int(); __CPROVER_assume(op >= 0 && op < NOPS); ops[i] = op; vals[i] = nondet_int(); outs[i] = 0;
        if (i < N) w_set_rec(i, w_op_base() + (unsigned)op, &vals[i], is_pop(op) ? &outs[i] : (int*)0);
    }
}
static void check_pairs(void) {
    __CPROVER_assert(n_done % 2 == 0 && n_done == 2 * n_collide, "C10.collide: records are completed in pairs only");
    for (unsigned j = 0; j < VX_N; ++j) if (j < N) __CPROVER_assert(done_cnt[j] <= 1 && (done_cnt[j] == 1) == (w_rec_done(j) != 0), "C10.collide: no record is completed twice; done flag set exactly for completed records");
    for (unsigned p = 0; p + 1 < 2 * VX_N; p += 2) if (p + 1 < n_done) {
        unsigned a = done_order[p], b = done_order[p + 1];      /* collide(): operation_done(push) then operation_done(pop) */
        __CPROVER_assert(a < N && b < N && a != b && is_push(ops[a]) && is_pop(ops[b]), "C10.collide: a pair is one push and one pop of this batch");
        __CPROVER_assert(outs[b] == vals[a] && !w_rec_empty(b), "C10.collide: the eliminated pop receives exactly the pushed value and is not reported empty");
        __CPROVER_assert(front_end(ops[a]) == front_end(ops[b]) || initn == 0, "C10.collide: a push at one end is collided with a pop at the other end only when the deque is empty");
    }
}
void h_fc_process(void) {
    setup();
    w_fc_process(N);
    check_pairs();
    int now[DQ_MAX]; unsigned nn = w_get_deque(now);
    __CPROVER_assert(nn == initn, "C10.fc_process: the elimination pass does not touch the deque (size)");
    for (unsigned i = 0; i < 3; ++i) if (i < initn) __CPROVER_assert(now[i] == init[i], "C10.fc_process: the elimination pass does not touch the deque (contents)");
    VX_REACH_GUARD();
}
void h_fc_apply(void) {
    setup();
    int e = 0, exp = 0, op = ops[0];
    w_fc_apply(0);
    if (op == PUSH_FRONT || op == PUSH_FRONT_MOVE) ref_push_front(vals[0]);
    else if (op == PUSH_BACK || op == PUSH_BACK_MOVE) ref_push_back(vals[0]);
    else if (op == POP_FRONT) exp = ref_pop_front(&e);
    else if (op == POP_BACK) exp = ref_pop_back(&e);
    else refn = 0;
    int now[DQ_MAX]; unsigned nn = w_get_deque(now);
    __CPROVER_assert(nn == refn, "C10.fc_apply: deque size as in the sequential specification");
    for (unsigned i = 0; i < 4; ++i) if (i < refn) __CPROVER_assert(now[i] == ref[i], "C10.fc_apply: deque contents as in the sequential specification");
    if (is_pop(op)) __CPROVER_assert((w_rec_empty(0) != 0) == (e != 0) && (e || outs[0] == exp), "C10.fc_apply: pop result / empty flag as in the sequential specification");
    VX_REACH_GUARD();
}
void h_batch(void) {
    setup();
    w_fc_process(N);
    for (unsigned i = 0; i < VX_N; ++i) if (i < N && !w_rec_done(i)) w_fc_apply(i);      /* kernel: apply what the elimination pass left (C23, assumed) */
    /* reference: collided pairs first, back to back */
    int exp_out[VX_N], exp_empty[VX_N];
    for (unsigned i = 0; i < VX_N; ++i) { exp_out[i] = 0; exp_empty[i] = 0; }
    for (unsigned p = 0; p + 1 < 2 * VX_N; p += 2) if (p + 1 < n_done) {
        unsigned a = done_order[p], b = done_order[p + 1];
        if (a < VX_N && b < VX_N) {
            if (front_end(ops[a])) ref_push_front(vals[a]); else ref_push_back(vals[a]);
            int e = 0; exp_out[b] = (ops[b] == POP_FRONT) ? ref_pop_front(&e) : ref_pop_back(&e); exp_empty[b] = e;
        }
    }
    for (unsigned i = 0; i < VX_N; ++i) if (i < N && done_cnt[i] == 0) {
        int op = ops[i], e = 0;
        if (op == PUSH_FRONT || op == PUSH_FRONT_MOVE) ref_push_front(vals[i]);
        else if (op == PUSH_BACK || op == PUSH_BACK_MOVE) ref_push_back(vals[i]);
        else if (op == POP_FRONT) { exp_out[i] = ref_pop_front(&e); exp_empty[i] = e; }
        else if (op == POP_BACK) { exp_out[i] = ref_pop_back(&e); exp_empty[i] = e; }
        else refn = 0;
    }
    for (unsigned i = 0; i < VX_N; ++i) if (i < N && is_pop(ops[i]))
        __CPROVER_assert((w_rec_empty(i) != 0) == (exp_empty[i] != 0) && (exp_empty[i] || outs[i] == exp_out[i]), "C10.batch: every pop of the batch returns what the sequential deque returns in the witness order (pairs first, then list order)");
    int now[DQ_MAX]; unsigned nn = w_get_deque(now);
    __CPROVER_assert(nn == refn, "C10.batch: final deque size equals the sequential execution");
    for (unsigned i = 0; i < 6; ++i) if (i < refn) __CPROVER_assert(now[i] == ref[i], "C10.batch: final deque contents equal the sequential execution");
    VX_REACH_GUARD();
}

/* ---- public entry points: what the caller is told, for a publication record re-used from earlier operations (stale fields) */
void w_stale_rec(vx_bool bEmpty, int* junk); void w_elimination(vx_bool on); vx_bool w_push_front(const int*); vx_bool w_push_back(const int*); vx_bool w_pop_front(int*); vx_bool w_pop_back(int*); unsigned w_rec_req(unsigned);
void h_entry_points(void) {
    int init[DQ_MAX]; unsigned initn = (unsigned)nondet_int() % 4;
    for (unsigned i = 0; i < 4; ++i) init[i] = nondet_int();
    w_set_deque(init, initn);
    int junk = nondet_int(), v = nondet_int(), out = nondet_int(), out0 = out;
    w_stale_rec(nondet_int() & 1, &junk);                  /* whatever the previous operation of this thread left in the record */
    w_elimination(nondet_int() & 1);
    unsigned which = (unsigned)nondet_int() % 4; vx_bool r;
    if (which == 0) r = w_push_front(&v); else if (which == 1) r = w_push_back(&v); else if (which == 2) r = w_pop_front(&out); else r = w_pop_back(&out);
    int now[DQ_MAX]; unsigned nn = w_get_deque(now);
    if (which <= 1) {
        __CPROVER_assert(r && nn == initn + 1 && now[which == 0 ? 0 : initn] == v, "C10.entry: push returns true and the value is at the chosen end");
        for (unsigned i = 0; i < 3; ++i) if (i < initn) __CPROVER_assert(now[which == 0 ? i + 1 : i] == init[i], "C10.entry: push keeps the other elements in order");
    } else if (initn == 0) {
        __CPROVER_assert(!r && out == out0 && nn == 0, "C10.entry: pop on an empty deque returns false and leaves the target unchanged");
    } else {
        __CPROVER_assert(r, "C10.entry: pop on a non-empty deque returns true, whatever an earlier operation left in the caller's publication record");
        __CPROVER_assert(out == (which == 2 ? init[0] : init[initn - 1]) && nn == initn - 1, "C10.entry: pop delivers the element at the chosen end and removes exactly it");
        for (unsigned i = 0; i < 3; ++i) if (i + 1 < initn) __CPROVER_assert(now[i] == init[which == 2 ? i + 1 : i], "C10.entry: pop keeps the other elements in order");
    }
    __CPROVER_assert(w_rec_req(0) == 0, "C10.entry: the record is released (empty) on return");
    VX_REACH_GUARD();
}
