// unit fc_batch — C10. Real text: enum fc_operation, struct fc_record, fc_apply, fc_process, collide, collide_move of
// cds::container::FCDeque (fragments), cds/algo/flat_combining/defs.h (verbatim).
// Shell: the flat-combining kernel (operation_done marks the record done and notifies the ghost; iterator = pointer over the
// batch array), std::deque (bounded array model = the ASSUMED contract of the underlying deque).
#include <cds/details/defs.h>
#include <cds/algo/atomic.h>
#include <cds/algo/flat_combining/defs.h>
#define constexpr_if if      /* cds/compiler/defs.h (declaration rule) */
#ifndef VX_DQ_CAP
#define VX_DQ_CAP 8
#endif
extern "C" void vx_done(unsigned idx);
extern "C" void vx_collide_stat(void);
struct vx_deque {
    int m[VX_DQ_CAP]; unsigned n;
    bool empty() const { return n == 0; }
    int& front() { return m[0]; }
    int& back() { return m[n - 1]; }
    void push_back( int const& v ) { m[n] = v; ++n; }
    void push_front( int const& v ) { for ( unsigned i = n; i > 0; --i ) m[i] = m[i - 1]; m[0] = v; ++n; }
    void pop_front() { for ( unsigned i = 1; i < n; ++i ) m[i - 1] = m[i]; --n; }
    void pop_back() { --n; }
};
struct shell_fcdeque;
struct shell_fcdeque {
    typedef int value_type;
#include <fc_operation.inc>
#include <fc_record.inc>
    typedef fc_record* vx_iterator;
    struct vx_stat { void onCollide() { vx_collide_stat(); } void onPushFront() {} void onPushBack() {} void onPopFront( bool ) {} void onPopBack( bool ) {} };
    struct vx_kernel {
        fc_record* base; vx_stat st; fc_record* cur; unsigned n;
        // the kernel as its callers see it (unit fc_kernel checks these guarantees on the real kernel): the caller's own publication record is
        // re-used from call to call (its fields hold whatever the last operation left); combine() hands the request to exactly one pass
        // that calls fc_apply on it; batch_combine() first gives the container the pending batch (fc_process), then fc_apply for what is left
        fc_record* acquire_record() { return cur; }
        void release_record( fc_record* pRec ) { pRec->nRequest.store( cds::algo::flat_combining::req_EmptyRecord, atomics::memory_order_release ); }
        void combine( unsigned op, fc_record* pRec, shell_fcdeque& owner );
        void batch_combine( unsigned op, fc_record* pRec, shell_fcdeque& owner );
        void operation_done( fc_record& rec ) { rec.nRequest.store( cds::algo::flat_combining::req_Response, atomics::memory_order_release ); vx_done( (unsigned)( &rec - base )); }
        vx_stat& internal_statistics() { return st; }
    };
    vx_kernel m_FlatCombining; vx_deque m_Deque;
#include <fc_apply.inc>
#include <fc_process.inc>
#include <collide.inc>
#include <collide_move.inc>
    static bool c_bEliminationEnabled;      // a compile-time constant of the real class; both values are explored
#include <push_front.inc>
#include <push_back.inc>
#include <pop_front.inc>
#include <pop_back.inc>
};
bool shell_fcdeque::c_bEliminationEnabled;
void shell_fcdeque::vx_kernel::combine( unsigned op, fc_record* pRec, shell_fcdeque& owner ) {
    pRec->nRequest.store( op, atomics::memory_order_release ); owner.fc_apply( pRec ); operation_done( *pRec );
}
void shell_fcdeque::vx_kernel::batch_combine( unsigned op, fc_record* pRec, shell_fcdeque& owner ) {
    pRec->nRequest.store( op, atomics::memory_order_release );
    owner.fc_process( base, base + n );
    for ( unsigned i = 0; i < n; ++i ) if ( base[i].op() >= cds::algo::flat_combining::req_Operation ) { owner.fc_apply( &base[i] ); operation_done( base[i] ); }
}
#ifndef VX_N
#define VX_N 3
#endif
static shell_fcdeque g_d; static shell_fcdeque::fc_record g_rec[VX_N];
extern "C" {
unsigned w_op_base(void) { return (unsigned) shell_fcdeque::op_push_front; }
void w_set_deque(const int* v, unsigned n) { g_d.m_Deque.n = n; for (unsigned i = 0; i < n; ++i) g_d.m_Deque.m[i] = v[i]; }
unsigned w_get_deque(int* v) { for (unsigned i = 0; i < g_d.m_Deque.n; ++i) v[i] = g_d.m_Deque.m[i]; return g_d.m_Deque.n; }
void w_set_rec(unsigned i, unsigned op, const int* push_val, int* pop_dst) {
    g_rec[i].nRequest.store(op, atomics::memory_order_relaxed);
    if (pop_dst) g_rec[i].pValPop = pop_dst; else g_rec[i].pValPush = push_val;
    g_rec[i].bEmpty = false;
}
bool w_rec_empty(unsigned i) { return g_rec[i].bEmpty; }
bool w_rec_done(unsigned i) { return g_rec[i].is_done(); }
void w_fc_process(unsigned n) { g_d.m_FlatCombining.base = g_rec; g_d.fc_process(g_rec, g_rec + n); }
void w_fc_apply(unsigned i) { g_d.fc_apply(&g_rec[i]); }
// public entry points on the caller's re-used record 0 (stale fields), alone in the batch
void w_stale_rec(bool bEmpty, int* junk) { g_rec[0].nRequest.store(cds::algo::flat_combining::req_EmptyRecord, atomics::memory_order_relaxed); g_rec[0].bEmpty = bEmpty; g_rec[0].pValPop = junk; g_d.m_FlatCombining.base = g_rec; g_d.m_FlatCombining.cur = &g_rec[0]; g_d.m_FlatCombining.n = 1; }
void w_elimination(bool on) { shell_fcdeque::c_bEliminationEnabled = on; }
bool w_push_front(const int* v) { return g_d.push_front(*v); }   bool w_push_back(const int* v) { return g_d.push_back(*v); }
bool w_pop_front(int* v) { return g_d.pop_front(*v); }            bool w_pop_back(int* v) { return g_d.pop_back(*v); }
unsigned w_rec_req(unsigned i) { return g_rec[i].nRequest.load(atomics::memory_order_relaxed); }
}
