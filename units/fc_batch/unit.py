# unit fc_batch — property C10 (FCDeque): the container code the combiner runs (fc_process / collide / fc_apply), conditional
# on the flat-combining kernel (C23, assumed: each published request is handed to exactly one combiner pass at a time)
FD = 'cds/container/fcdeque.h'


def frag(name, anchor, **kw):
    d = dict(kind='fragment', path=FD, name=name, anchor=anchor, rewrites=[])
    d.update(kw)
    return d


AUTO = dict(lit='auto pRec = m_FlatCombining.acquire_record();', to='fc_record* pRec = m_FlatCombining.acquire_record();', count=1, why='CBMC types `auto` as int; explicit type = what g++ deduces')


def G(name, harness, fns, expect, unwind=8, timeout=900, defines=()):
    return dict(name=name, harness=harness, enforce=[], dfcc=False, functions=fns, expect=expect, props=['C10'], timeout=timeout, unwind=unwind, defines=list(defines),
                replay=dict(driver='replay.cpp', case=name, vars=[], repo_sources=RS, libs=['-lboost_thread', '-lboost_system']),
                bounded='batch of <= 3 (quick) / 4 (thorough) publication records with symbolic operations and values; deque contents <= 3 elements')


RS = ['src/hp.cpp', 'src/init.cpp', 'src/thread_data.cpp', 'src/hp_thread_local.cpp', 'src/dhp.cpp', 'src/topology_linux.cpp', 'src/urcu_gp.cpp', 'src/urcu_sh.cpp']
UNIT = dict(
    properties=['C10'],
    stage=[
        dict(kind='verbatim', path='cds/algo/flat_combining/defs.h'),
        frag('fc_operation', r'enum fc_operation(?= \{)', semicolon=True),
        frag('fc_record', r'struct fc_record: public cds::algo::flat_combining::publication_record', semicolon=True),
        frag('fc_apply', r'void fc_apply\( fc_record \* \w+ \)', rewrites=[
            dict(lit='std::move( *(pRec->pValPush ))', to='*(pRec->pValPush )', count=2, why='std::move on an lvalue of a trivially copyable value type: the copy is the move'),
            dict(lit='std::move( m_Deque.front())', to='m_Deque.front()', count=1, why='same'),
            dict(lit='std::move( m_Deque.back())', to='m_Deque.back()', count=1, why='same')]),
        frag('fc_process', r'void fc_process\( typename fc_kernel::iterator \w+, typename fc_kernel::iterator \w+ \)', rewrites=[
            dict(re=r'void fc_process\( typename fc_kernel::iterator (\w+), typename fc_kernel::iterator (\w+) \)', to=r'void fc_process( vx_iterator \1, vx_iterator \2 )', count=1,
                 why='nested type of the kernel template (typename fc_kernel::iterator) is not resolved by the front end; the shell iterator type'),
            dict(lit='typedef typename fc_kernel::iterator fc_iterator;', to='typedef vx_iterator fc_iterator;', count=1, why='same')]),
        frag('collide', r'void collide\( fc_record& \w+, fc_record& \w+ \)'),
        # the public entry points (what a caller sees): record set-up, combine / batch_combine, result taken from the record
        frag('push_front', r'bool push_front\(\s*value_type const& \w+[^)]*\)', rewrites=[AUTO]),
        frag('push_back', r'bool push_back\(\s*value_type const& \w+[^)]*\)', rewrites=[AUTO]),
        frag('pop_front', r'bool pop_front\(\s*value_type& \w+[^)]*\)', rewrites=[AUTO]),
        frag('pop_back', r'bool pop_back\(\s*value_type& \w+[^)]*\)', rewrites=[AUTO]),
        frag('collide_move', r'void collide_move\( fc_record& \w+, fc_record& \w+ \)', rewrites=[
            dict(lit='std::move( *(recPush.pValPush))', to='*(recPush.pValPush)', count=1, why='std::move on a trivially copyable value: the copy is the move')]),
    ],
    decl_rules=[
        dict(path='cds/compiler/defs.h', re=r'#\s*define constexpr_if if', count=1),
        dict(path=FD, re=r'mutable fc_kernel m_FlatCombining;\s*deque_type\s+m_Deque;', count=1),
        dict(path='cds/algo/flat_combining/kernel.h', re=r'rec\.nRequest\.store\( req_Response, memory_model::memory_order_release \);', count='1+'),
    ],
    cxx=['shim.cpp'], c=['contracts.c'], cxxflags=['-Dconstexpr=', '-Dnoexcept=', '-Dexplicit='],
    sabotage=[
        dict(name='apply_pop_keeps_stale_empty_flag', quick=True, target='fc_apply', re=r'case op_pop_back:\s*assert\( pRec->pValPop \);\s*pRec->bEmpty = m_Deque\.empty\(\);\s*if \( !pRec->bEmpty \) \{',
             to='case op_pop_back: if ( m_Deque.empty()) pRec->bEmpty = true; else {', count=1, groups=['entry_points'], expect_fail=r'C10\.entry'),
        dict(name='pop_back_collides_push_front', quick=True, target='fc_process', re=r'(case op_pop_back:.*?else \{\s*switch \( itPrev->op\(\)\) \{\s*case op_push_back:\s*collide\( \*itPrev, \*it \);\s*itPrev = itEnd;\s*break;\s*case) op_push_back_move:', to=r'\1 op_push_front_move:', count=1, dotall=True,
             groups=['fc_process'], expect_fail=r'C10\.collide: a push at one end'),
        dict(name='collide_sets_empty', target='collide', lit='recPop.bEmpty = false;', to='recPop.bEmpty = true;', count=1, groups=['fc_process'], expect_fail=r'C10\.collide: the eliminated pop'),
        dict(name='apply_pop_back_takes_front', target='fc_apply', lit='*(pRec->pValPop) = m_Deque.back();', to='*(pRec->pValPop) = m_Deque.front();', count=1, groups=['fc_apply'], expect_fail=r'C10\.fc_apply'),
    ],
    trusted_base=[
        'the flat-combining kernel (C23, ASSUMED): every published request is handed to exactly one combiner pass at a time; the pass calls fc_process over the pending records and then fc_apply on each record not yet done, in list order',
        'std::deque replaced by a bounded array model (the assumed contract of the underlying deque)',
        'shell struct for the FCDeque class template; value_type int (std::move of a trivially copyable value = copy)',
        'CBMC 6.11 C++ front end',
    ],
    assumptions=['BOUNDED: batch <= 3 records, initial deque <= 3 elements, all 7 operation codes symbolic',
                 'linearizability of FCDeque follows only together with the kernel guarantees (C23, not decided)'],
    dropped=['template class context (traits, kernel type)', 'std::move on int values'],
    groups=[
        G('fc_process', 'h_fc_process', ['FCDeque::fc_process', 'FCDeque::collide', 'FCDeque::collide_move'], [r'C10\.collide', r'C10\.fc_process'],
          unwind=8),
        G('fc_apply', 'h_fc_apply', ['FCDeque::fc_apply'], [r'C10\.fc_apply'], unwind=8),
        G('entry_points', 'h_entry_points', ['FCDeque::push_front(const&)', 'FCDeque::push_back(const&)', 'FCDeque::pop_front', 'FCDeque::pop_back', 'FCDeque::fc_apply', 'FCDeque::fc_process'], [r'C10\.entry'], unwind=8),
        G('batch', 'h_batch', ['FCDeque::fc_process + fc_apply over one batch'], [r'C10\.batch'], unwind=8),
    ],
)
