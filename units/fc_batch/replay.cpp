// unit fc_batch — native replay against the real cds::container::FCDeque of /repo: every sequence of <= 5 operations from
// { push_front, push_back, pop_front, pop_back } on one thread (elimination off and on) is compared with std::deque.
// Exit 1 + "REPRODUCED" on the first deviation.
#include <cstdio>
#include <deque>
#include <string>
#include <cds/init.h>
#include <cds/container/fcdeque.h>
struct tr_on : public cds::container::fcdeque::traits { static constexpr const bool enable_elimination = true; };
template <typename D> static int run(const char* c, const char* mode) {
    static const char* NM[4] = { "push_front", "push_back", "pop_front", "pop_back" };
    for (int len = 1; len <= 5; ++len) {
        int total = 1; for (int i = 0; i < len; ++i) total *= 4;
        for (int code = 0; code < total; ++code) {
            D d; std::deque<int> ref; int x = code; std::string seq;
            for (int i = 0; i < len; ++i) {
                int op = x % 4; x /= 4; int v = 10 + i; seq += std::string(i ? " " : "") + NM[op];
                bool bad = false; char what[160] = "";
                if (op == 0) { d.push_front(v); ref.push_front(v); }
                else if (op == 1) { d.push_back(v); ref.push_back(v); }
                else {
                    int out = -1; bool r = op == 2 ? d.pop_front(out) : d.pop_back(out);
                    bool er = !ref.empty(); int eo = -1;
                    if (er) { if (op == 2) { eo = ref.front(); ref.pop_front(); } else { eo = ref.back(); ref.pop_back(); } }
                    if (r != er || (er && out != eo)) { bad = true; std::snprintf(what, sizeof what, "%s returned %s (value %d), the sequential deque says %s (value %d)", NM[op], r ? "true" : "false", out, er ? "true" : "false", eo); }
                }
                if (!bad && d.size() != ref.size()) { bad = true; std::snprintf(what, sizeof what, "size() is %zu, the sequential deque holds %zu", d.size(), ref.size()); }
                if (bad) { std::printf("REPRODUCED %s: FCDeque (%s), one thread, sequence [%s]: %s\n", c, mode, seq.c_str(), what); return 1; }
            }
        }
    }
    return 0;
}
int main(int argc, char** argv) {
    const char* c = argc > 1 ? argv[1] : "";
    cds::Initialize();
    int r = run< cds::container::FCDeque<int> >(c, "elimination off");
    if (!r) r = run< cds::container::FCDeque<int, std::deque<int>, tr_on> >(c, "elimination on");
    cds::Terminate();
    if (!r) std::printf("not reproduced over the native sequence search\n");
    return r;
}
