// unit splitorder, part "aux nodes" (C17): the allocation of auxiliary (dummy) nodes by the two bucket tables — a dummy node handed out
// twice is re-keyed while it is linked, which loses elements when the table grows. Real text: alloc_aux_node / free_aux_node of
// split_list::static_bucket_table and split_list::expandable_bucket_table (fragments of cds/intrusive/details/split_list_base.h).
// Shell: the members the fragments use; aux segments are named objects with an explicit cell array (the real segment is one raw
// allocation with the cells after the header); the free list is a ghost bag; placement new -> ghost notification.
#include <cds/details/defs.h>
#include <cds/algo/atomic.h>
extern "C" { void* vx_fl_get( void ); void vx_fl_put( void* p ); void vx_constructed( void* p ); void vx_seg_freed( void* p ); void vx_seg_exhausted( void ); }
#ifndef VX_SEG
#define VX_SEG 2
#endif
struct vx_aux_node { int key; int tag; };
static inline vx_aux_node* vx_construct( vx_aux_node* p ) { vx_constructed( p ); p->key = 0; p->tag = 0; return p; }
struct vx_mm { static const atomics::memory_order memory_order_relaxed = atomics::memory_order_relaxed, memory_order_acquire = atomics::memory_order_acquire, memory_order_release = atomics::memory_order_release; };
struct vx_free_list { void* get() { return vx_fl_get(); } void put( vx_aux_node* p ) { vx_fl_put( p ); } };

struct shell_expandable_table {
    typedef vx_aux_node aux_node_type; struct memory_model { static const atomics::memory_order memory_order_relaxed = atomics::memory_order_relaxed, memory_order_acquire = atomics::memory_order_acquire, memory_order_release = atomics::memory_order_release; };
    struct aux_node_segment {            // real: { atomic<size_t> aux_node_count; aux_node_segment* next_segment; /* aux_node_type nodes[] */ }, ctor sets 0 / nullptr (declaration rules)
        atomics::atomic< size_t > aux_node_count; aux_node_segment* next_segment; aux_node_type cells[VX_SEG];
        aux_node_type* segment() { return cells; }
    };
    struct { size_t nSegmentSize; } m_metrics;
    vx_free_list m_freeList;
    atomics::atomic<aux_node_segment*> m_auxNodeList;
    aux_node_segment* allocate_aux_segment();
    void free_aux_segment( aux_node_segment* p ) { vx_seg_freed( p ); }
#include <exp_alloc_aux_node.inc>
#include <exp_free_aux_node.inc>
};
static shell_expandable_table::aux_node_segment vx_s0, vx_s1, vx_s2, vx_s3; static unsigned vx_seg_used;
shell_expandable_table::aux_node_segment* shell_expandable_table::allocate_aux_segment() {
    if ( vx_seg_used >= 4 ) vx_seg_exhausted();
    aux_node_segment* s = vx_seg_used == 0 ? &vx_s0 : vx_seg_used == 1 ? &vx_s1 : vx_seg_used == 2 ? &vx_s2 : &vx_s3; ++vx_seg_used;
    s->next_segment = nullptr; s->aux_node_count.store( 0, atomics::memory_order_release );        // what the real constructor does
    return s;
}
struct shell_static_table {
    typedef vx_aux_node aux_node_type; struct memory_model { static const atomics::memory_order memory_order_relaxed = atomics::memory_order_relaxed, memory_order_acquire = atomics::memory_order_acquire, memory_order_release = atomics::memory_order_release; };
    atomics::atomic<size_t> m_nAuxNodeAllocated; aux_node_type m_auxNode[4]; size_t m_nCapacity; vx_free_list m_freeList;
#include <st_alloc_aux_node.inc>
#include <st_capacity.inc>
};
static shell_expandable_table g_e; static shell_static_table g_t;
extern "C" {
void w_aux_init( void ) { vx_seg_used = 0; g_e.m_metrics.nSegmentSize = VX_SEG; g_e.m_auxNodeList.store( g_e.allocate_aux_segment(), atomics::memory_order_relaxed );    // init() allocates the first segment (declaration rule)
                          g_t.m_nAuxNodeAllocated.store( 0, atomics::memory_order_relaxed ); g_t.m_nCapacity = 4; }
void* w_exp_alloc( void ) { return g_e.alloc_aux_node(); }
void w_exp_free( void* p ) { g_e.free_aux_node( (vx_aux_node*) p ); }
void* w_st_alloc( void ) { return g_t.alloc_aux_node(); }
// which cell an address is: 10 * segment + index for the expandable table, 100 + index for the static one, -1 otherwise
int w_cell_of( const void* p ) {
    shell_expandable_table::aux_node_segment* segs[4] = { &vx_s0, &vx_s1, &vx_s2, &vx_s3 };
    for ( int s = 0; s < 4; ++s ) for ( int i = 0; i < VX_SEG; ++i ) if ( p == (const void*) &segs[s]->cells[i] ) return 10 * s + i;
    for ( int i = 0; i < 4; ++i ) if ( p == (const void*) &g_t.m_auxNode[i] ) return 100 + i;
    return -1;
}
}
