// unit splitorder — split-order key encoding (C27) and split-list growth (C17 part).
// Real text: regular_hash/dummy_hash (fragments of cds/intrusive/details/split_list_base.h), bucket_no and
// parent_bucket (fragments of the three SplitListSet variants), bit_reversal.h (shadow with contract points).
// Shell: a plain struct standing in for SplitListSet<GC,OrderedList,Traits> that supplies only the member the
// fragments refer to (m_nBucketCountLog2) — tied to the real declaration by a declaration rule in unit.py.
#include <cds/algo/atomic.h>
#include <cds/algo/bitop.h>            // shell + real BitOps<8> body
#include <cds/algo/bit_reversal.h>     // shadow: real text, contract points on the three 64-bit operators
#include <cds/details/size_t_cast.h>   // real

extern "C" uint64_t c_rev64(uint64_t x);
#ifdef VX_CONTRACT_swar64
inline uint64_t cds::algo::bit_reversal::swar::operator()(uint64_t x) const { return c_rev64(x); }
#endif
#ifdef VX_CONTRACT_lookup64
inline uint64_t cds::algo::bit_reversal::lookup::operator()(uint64_t x) const { return c_rev64(x); }
#endif
#ifdef VX_CONTRACT_muldiv64
inline uint64_t cds::algo::bit_reversal::muldiv::operator()(uint64_t x) const { return c_rev64(x); }
#endif

namespace cds { namespace intrusive { namespace split_list {
#include <regular_hash.inc>
#include <dummy_hash.inc>
}}}

namespace cds { namespace intrusive {
#define VX_SHELL(NAME, BN, PB) \
    struct NAME { struct memory_model { static const atomics::memory_order memory_order_relaxed = atomics::memory_order_relaxed; }; atomics::atomic<size_t> m_nBucketCountLog2;
    struct vx_counter { size_t n; size_t operator++() { return ++n; } };
    struct vx_buckets { size_t cap, lf; size_t capacity() const { return cap; } size_t load_factor() const { return lf; } };
    VX_SHELL(shell_hp, 0, 0)
        atomics::atomic<size_t> m_nMaxItemCount; vx_counter m_ItemCounter; vx_buckets m_Buckets;
#include <bucket_no_hp.inc>
#include <parent_bucket_hp.inc>
#include <max_item_count.inc>
#include <inc_item_count.inc>
    };
    VX_SHELL(shell_rcu, 0, 0)
#include <bucket_no_rcu.inc>
#include <parent_bucket_rcu.inc>
    };
    VX_SHELL(shell_nogc, 0, 0)
#include <bucket_no_nogc.inc>
#include <parent_bucket_nogc.inc>
    };
}}

using namespace cds::algo::bit_reversal;
namespace SL = cds::intrusive::split_list;
extern "C" size_t w_regular_hash_swar(size_t h)   { return SL::regular_hash<swar>(h); }
extern "C" size_t w_regular_hash_lookup(size_t h) { return SL::regular_hash<lookup>(h); }
extern "C" size_t w_regular_hash_muldiv(size_t h) { return SL::regular_hash<muldiv>(h); }
extern "C" size_t w_dummy_hash_swar(size_t h)     { return SL::dummy_hash<swar>(h); }
extern "C" size_t w_dummy_hash_lookup(size_t h)   { return SL::dummy_hash<lookup>(h); }
extern "C" size_t w_dummy_hash_muldiv(size_t h)   { return SL::dummy_hash<muldiv>(h); }
#define VX_W(T, S) \
    extern "C" size_t w_bucket_no_##T(size_t k, size_t h) { cds::intrusive::S s; s.m_nBucketCountLog2.store(k); return s.bucket_no(h); } \
    extern "C" size_t w_parent_bucket_##T(size_t b) { return cds::intrusive::S::parent_bucket(b); }
VX_W(hp, shell_hp) VX_W(rcu, shell_rcu) VX_W(nogc, shell_nogc)

extern "C" void w_inc_item_count(size_t* log2, size_t* maxcnt, size_t* items, size_t cap, size_t lf) {
    cds::intrusive::shell_hp s; s.m_nBucketCountLog2.store(*log2); s.m_nMaxItemCount.store(*maxcnt); s.m_ItemCounter.n = *items; s.m_Buckets.cap = cap; s.m_Buckets.lf = lf;
    s.inc_item_count();
    *log2 = s.m_nBucketCountLog2.load(); *maxcnt = s.m_nMaxItemCount.load(); *items = s.m_ItemCounter.n;
}
