/* unit splitorder, part "aux nodes" — property C17 (SplitListSet growth): every bucket initialised while the table grows gets its own
   dummy node. alloc_aux_node() must never hand out a cell that is in use (handed out earlier and not given back through
   free_aux_node()): a cell handed out twice is constructed again while it is linked in the list and registered in the bucket table. */
#include <vx_c.h>
#ifndef VX_SEG
#define VX_SEG 2
#endif
static int nondet_int(void) { int v; return v; }
void w_aux_init(void); void* w_exp_alloc(void); void w_exp_free(void* p); void* w_st_alloc(void); int w_cell_of(const void* p);
#define NCELL 140
int in_use[NCELL]; void* fl[4]; unsigned fln; int seg_freed_n;
void vx_constructed(void* p) {
    int c = w_cell_of(p);
    __CPROVER_assert(c >= 0, "C17.aux_node_unique: a dummy node is constructed inside an allocated segment");
    if (c >= 0) { __CPROVER_assert(!in_use[c], "C17.aux_node_unique: alloc_aux_node() constructs a dummy node in a cell that is not in use (never hands a cell out twice)"); in_use[c] = 1; }
}
void* vx_fl_get(void) { if (!fln) return NULL; void* p = fl[--fln]; int c = w_cell_of(p); if (c >= 0) in_use[c] = 1; return p; }
void vx_fl_put(void* p) { int c = w_cell_of(p); __CPROVER_assert(c >= 0 && in_use[c], "C17.aux_node_unique: only a node in use is given back"); if (c >= 0) in_use[c] = 0; if (fln < 4) fl[fln++] = p; }
void vx_seg_freed(void* p) { ++seg_freed_n; }
void vx_seg_exhausted(void) { __CPROVER_assume(0); }
void h_aux_alloc(void) {
    w_aux_init();
    void* got[6]; unsigned n = 0;
    for (unsigned step = 0; step < 6; ++step) {
        if (n > 0 && (nondet_int() & 3) == 0) { unsigned k = (unsigned)nondet_int() % 6; if (k < n && got[k]) { w_exp_free(got[k]); got[k] = NULL; } }
        else {
            void* p = w_exp_alloc();
            __CPROVER_assert(p != NULL && w_cell_of(p) >= 0 && w_cell_of(p) < 100, "C17.aux_node_unique: the expandable table always finds a dummy node");
            for (unsigned j = 0; j < 6; ++j) if (j < n && got[j]) __CPROVER_assert(got[j] != p, "C17.aux_node_unique: a dummy node still in use is not handed out again");
            if (n < 6) got[n++] = p;
        }
    }
    __CPROVER_assert(seg_freed_n == 0, "C17.aux_node_unique: without contention no segment is discarded");
    /* static table: capacity 4, then exhausted (its free list is empty) */
    fln = 0;
    void* s[5];
    for (unsigned i = 0; i < 5; ++i) { s[i] = w_st_alloc(); for (unsigned j = 0; j < i; ++j) __CPROVER_assert(s[i] == NULL || s[i] != s[j], "C17.aux_node_unique: the static table never hands a dummy node out twice"); }
    __CPROVER_assert(s[3] != NULL && s[4] == NULL, "C17.aux_node_unique: the static table hands out exactly capacity() nodes, then reports exhaustion");
    VX_REACH_GUARD();
}
