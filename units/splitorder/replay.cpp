// unit splitorder — native replay. bucket_no/parent_bucket are private members of the SplitListSet class templates and
// a table of >= 2^31 buckets cannot be built natively, so the driver compiles the EXTRACTED function text (the same
// fragments the verifier saw, staged from /repo on this run) into a plain struct and calls it.
#include <cstdio>
#include <cstdlib>
#include <cstring>
#include <string>
#include <map>
#include <cds/algo/atomic.h>
#include <cds/algo/bitop.h>
#include <cds/algo/bit_reversal.h>
#include <cds/details/size_t_cast.h>
typedef unsigned long long ull;
static std::map<std::string, ull> A;
static ull arg(const char* n) { return A.count(n) ? A[n] : 0; }
namespace cds { namespace intrusive { namespace split_list {
#include <regular_hash.inc>
#include <dummy_hash.inc>
}
#define SH(NAME) struct NAME { typedef cds::opt::v::relaxed_ordering memory_model; atomics::atomic<size_t> m_nBucketCountLog2;
}}
#include <cds/opt/options.h>
namespace cds { namespace intrusive {
SH(shell_hp)
#include <bucket_no_hp.inc>
#include <parent_bucket_hp.inc>
};
SH(shell_rcu)
#include <bucket_no_rcu.inc>
#include <parent_bucket_rcu.inc>
};
SH(shell_nogc)
#include <bucket_no_nogc.inc>
#include <parent_bucket_nogc.inc>
};
}}
static ull rev64(ull x) { ull r = 0; for (int i = 0; i < 64; ++i) if ((x >> i) & 1) r |= 1ull << (63 - i); return r; }
template <class S> static int bucket_no(ull k, ull h) {
    // the verifier's hash may hit the oversized shift without changing the value natively: also try other hashes for this k
    ull hs[] = { h, ~0ull, 0xFEDCBA9876543210ull, 0x0123456789ABCDEFull };
    for (ull hh : hs) {
        S s; s.m_nBucketCountLog2.store(k); ull got = s.bucket_no(hh), want = hh & ((1ull << k) - 1);
        if (got != want) { std::printf("REPRODUCED bucket_no: table of 2^%llu buckets, hash 0x%llx: extracted real function returns 0x%llx, h mod 2^k = 0x%llx\n", k, hh, got, want); return 1; }
    }
    std::printf("ok bucket_no\n"); return 0;
}
template <class S> static int parent(ull b) {
    ull got = S::parent_bucket(b); int m = 63 - __builtin_clzll(b); ull want = b ^ (1ull << m);
    if (got != want) { std::printf("REPRODUCED parent_bucket(0x%llx): extracted real function returns 0x%llx, bucket with top bit cleared = 0x%llx\n", b, got, want); return 1; }
    std::printf("ok parent_bucket\n"); return 0;
}
template <class R> static int hashes(bool regular, ull h) {
    ull got = regular ? cds::intrusive::split_list::regular_hash<R>(h) : cds::intrusive::split_list::dummy_hash<R>(h);
    ull want = regular ? (rev64(h) | 1) : (rev64(h) & ~1ull);
    if (got != want) { std::printf("REPRODUCED %s_hash(0x%llx) = 0x%llx, definition 0x%llx\n", regular ? "regular" : "dummy", h, got, want); return 1; }
    std::printf("ok hash\n"); return 0;
}
int main(int argc, char** argv) {
    if (argc < 2) return 2;
    std::string c = argv[1];
    for (int i = 2; i < argc; ++i) { char* eq = std::strchr(argv[i], '='); if (!eq) continue; *eq = 0; A[argv[i]] = std::strtoull(eq + 1, nullptr, 0); }
    using namespace cds::intrusive; using namespace cds::algo::bit_reversal;
    if (c == "bucket_no_hp") return bucket_no<shell_hp>(arg("k"), arg("h"));
    if (c == "bucket_no_rcu") return bucket_no<shell_rcu>(arg("k"), arg("h"));
    if (c == "bucket_no_nogc") return bucket_no<shell_nogc>(arg("k"), arg("h"));
    if (c == "parent_bucket_hp") return parent<shell_hp>(arg("b"));
    if (c == "parent_bucket_rcu") return parent<shell_rcu>(arg("b"));
    if (c == "parent_bucket_nogc") return parent<shell_nogc>(arg("b"));
    bool reg = c.compare(0, 8, "regular_") == 0;
    if (c.find("swar") != std::string::npos) return hashes<swar>(reg, arg("h"));
    if (c.find("lookup") != std::string::npos) return hashes<lookup>(reg, arg("h"));
    if (c.find("muldiv") != std::string::npos) return hashes<muldiv>(reg, arg("h"));
    return 2;
}
