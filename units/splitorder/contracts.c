/* unit splitorder — property C27 (split-order key encoding keeps each bucket contiguous) */
#include <vx_c.h>
#define REV64(r, x) __CPROVER_forall { unsigned i64; (i64 < 64) ==> (BIT(r, i64) == BIT(x, 63 - i64)) }
/* regular key: reversed hash with the low bit set (odd); dummy: reversed bucket number with the low bit clear (even) */
#define REGULAR_POST(r, h) (BIT(r, 0) == 1 && __CPROVER_forall { unsigned ir; (ir < 64) ==> ((ir >= 1) ==> (BIT(r, ir) == BIT(h, 63 - ir))) })
#define DUMMY_POST(r, b)   (BIT(r, 0) == 0 && __CPROVER_forall { unsigned id; (id < 64) ==> ((id >= 1) ==> (BIT(r, id) == BIT(b, 63 - id))) })
/* bucket of hash h in a table of 2^k buckets: h mod 2^k */
#define BUCKET_POST(r, k, h) ((r) == ((h) & ((((size_t)1) << ((k) & 63)) - 1)))
/* parent: the bucket number with its most significant set bit cleared */
#define PARENT_POST(r, b) (__CPROVER_exists { unsigned im; (im < 64) && (((b) >> im) == 1) && ((r) == ((b) ^ (((size_t)1) << im))) })

/* callee contracts */
uint64_t c_rev64(uint64_t x) __CPROVER_ensures(REV64(__CPROVER_return_value, x)) __CPROVER_assigns();
int c_msb64nz(uint64_t x) __CPROVER_requires(x != 0)
    __CPROVER_ensures(__CPROVER_return_value >= 0 && __CPROVER_return_value < 64 && (x >> (__CPROVER_return_value & 63)) == 1) __CPROVER_assigns();
size_t c_regular_hash(size_t h) __CPROVER_ensures(REGULAR_POST(__CPROVER_return_value, h)) __CPROVER_assigns();
size_t c_dummy_hash(size_t b)   __CPROVER_ensures(DUMMY_POST(__CPROVER_return_value, b)) __CPROVER_assigns();
size_t c_bucket_no(size_t k, size_t h) __CPROVER_requires(k < 64) __CPROVER_ensures(BUCKET_POST(__CPROVER_return_value, k, h)) __CPROVER_assigns();
size_t c_parent_bucket(size_t b) __CPROVER_requires(b > 0) __CPROVER_ensures(PARENT_POST(__CPROVER_return_value, b)) __CPROVER_assigns();

#define HASH_CONTRACT(name, POST) size_t name(size_t h) __CPROVER_ensures(POST(__CPROVER_return_value, h)) __CPROVER_assigns(); \
    void h_##name(void) { size_t h; name(h); VX_REACH_GUARD(); }
HASH_CONTRACT(w_regular_hash_swar, REGULAR_POST) HASH_CONTRACT(w_regular_hash_lookup, REGULAR_POST) HASH_CONTRACT(w_regular_hash_muldiv, REGULAR_POST)
HASH_CONTRACT(w_dummy_hash_swar, DUMMY_POST) HASH_CONTRACT(w_dummy_hash_lookup, DUMMY_POST) HASH_CONTRACT(w_dummy_hash_muldiv, DUMMY_POST)

#define TABLE_CONTRACTS(T) \
    size_t w_bucket_no_##T(size_t k, size_t h) __CPROVER_requires(k < 64) __CPROVER_ensures(BUCKET_POST(__CPROVER_return_value, k, h)) __CPROVER_assigns(); \
    void h_w_bucket_no_##T(void) { size_t k, h; __CPROVER_assume(k < 64); w_bucket_no_##T(k, h); VX_REACH_GUARD(); } \
    size_t w_parent_bucket_##T(size_t b) __CPROVER_requires(b > 0) __CPROVER_ensures(PARENT_POST(__CPROVER_return_value, b) && __CPROVER_return_value < b) __CPROVER_assigns(); \
    void h_w_parent_bucket_##T(void) { size_t b; __CPROVER_assume(b > 0); w_parent_bucket_##T(b); VX_REACH_GUARD(); }
TABLE_CONTRACTS(hp) TABLE_CONTRACTS(rcu) TABLE_CONTRACTS(nogc)

/* ---------- ordering lemmas: the verifier sees only the contracts above (every call is replaced) */
void h_lemma_parity(void) {
    size_t h, b; size_t r = c_regular_hash(h), d = c_dummy_hash(b);
    __CPROVER_assert((r & 1) == 1, "C27.lemma: regular keys are odd");
    __CPROVER_assert((d & 1) == 0, "C27.lemma: bucket dummies are even");
    VX_REACH_GUARD();
}
void h_lemma_parent_before_bucket(void) {
    size_t b; __CPROVER_assume(b > 0 && b < ((size_t)1 << 63));   /* bucket of a table of at most 2^63 buckets */
    size_t p = c_parent_bucket(b);
    __CPROVER_assert(c_dummy_hash(p) < c_dummy_hash(b), "C27.lemma: a bucket's parent dummy sorts before the bucket's dummy");
    VX_REACH_GUARD();
}
void h_lemma_key_after_own_dummy(void) {
    size_t h, k; __CPROVER_assume(k < 64);
    size_t b = c_bucket_no(k, h);
    __CPROVER_assert(c_dummy_hash(b) < c_regular_hash(h), "C27.lemma: every regular key of bucket b sorts after b's dummy");
    VX_REACH_GUARD();
}
void h_lemma_no_dummy_between(void) {
    size_t h, k, b2; __CPROVER_assume(k < 64);
    size_t b = c_bucket_no(k, h);
    __CPROVER_assume(b2 != b && b2 == (b2 & ((((size_t)1) << k) - 1)));     /* any other bucket of the 2^k table */
    size_t db = c_dummy_hash(b), d2 = c_dummy_hash(b2), r = c_regular_hash(h);
    __CPROVER_assert(d2 < db || r < d2, "C27.lemma: no other bucket's dummy lies between b's dummy and a key of b");
    VX_REACH_GUARD();
}
/* two keys of the same bucket and a dummy of another bucket: the bucket's keys are contiguous */
void h_lemma_bucket_contiguous(void) {
    size_t h1, h2, k, b2; __CPROVER_assume(k < 64);
    size_t b = c_bucket_no(k, h1);
    __CPROVER_assume(c_bucket_no(k, h2) == b);
    __CPROVER_assume(b2 != b && b2 == (b2 & ((((size_t)1) << k) - 1)));
    size_t r1 = c_regular_hash(h1), r2 = c_regular_hash(h2), d2 = c_dummy_hash(b2);
    __CPROVER_assert(!((r1 < d2 && d2 < r2) || (r2 < d2 && d2 < r1)), "C27.lemma: no foreign dummy separates two keys of one bucket");
    VX_REACH_GUARD();
}

/* ---------- C17, split-list part: growing the bucket table never loses or duplicates elements because no element moves.
   (L) For every hash h and k < 63, with b = h mod 2^k (bucket under the old size) and b2 = h mod 2^(k+1) (under the new size):
   b2 == b, or b2 is a new bucket whose parent is b; the new bucket's dummy lies between the old bucket's dummy and the key.
   So a key inserted under size 2^k is reached under size 2^(k+1) from the new bucket's dummy — or, while that bucket is still
   being initialised, from its parent's. */
void h_lemma_growth(void) {
    size_t h, k; __CPROVER_assume(k < 63);
    size_t b = c_bucket_no(k, h), b2 = c_bucket_no(k + 1, h);
    if (b2 != b) {
        __CPROVER_assert(c_parent_bucket(b2) == b, "C17.lemma: after doubling, the key's new bucket is the old one or a child of the old one");
        __CPROVER_assert(c_dummy_hash(b) < c_dummy_hash(b2), "C17.lemma: the child bucket's dummy sorts after the parent's");
    }
    __CPROVER_assert(c_dummy_hash(b2) < c_regular_hash(h), "C17.lemma: the key sorts after its new bucket's dummy (it is reachable from it without being moved)");
    VX_REACH_GUARD();
}
/* inc_item_count (sequential): the table only doubles, never beyond the bucket-table capacity, and the resize threshold is
   bucket count x load factor (or "never" once the table cannot grow) */
void w_inc_item_count(size_t* log2, size_t* maxcnt, size_t* items, size_t cap, size_t lf);
void h_inc_item_count(void) {
    size_t sz, maxcnt, items, capl, lf;
    __CPROVER_assume(sz <= capl && capl <= 60 && (lf == 1 || lf == 2 || lf == 4) && items < ((size_t)1 << 62));
    size_t cap = (size_t)1 << capl, cnt = (size_t)1 << sz;
    __CPROVER_assume(maxcnt == cnt * lf || maxcnt == ~(size_t)0);
    size_t sz1 = sz, max1 = maxcnt, it1 = items;
    w_inc_item_count(&sz1, &max1, &it1, cap, lf);
    __CPROVER_assert(it1 == items + 1, "C17.inc_item_count: counts the new item");
    __CPROVER_assert(sz1 == sz || sz1 == sz + 1, "C17.inc_item_count: the bucket count stays or doubles");
    __CPROVER_assert(((size_t)1 << sz1) <= cap, "C17.inc_item_count: never grows beyond the bucket-table capacity");
    __CPROVER_assert(sz1 == sz || (items + 1 > maxcnt && cnt < cap), "C17.inc_item_count: doubles only when the load threshold is exceeded and the table can grow");
    __CPROVER_assert(max1 == (((size_t)1 << sz1) * lf) || max1 == ~(size_t)0, "C17.inc_item_count: the threshold is bucket count x load factor (or never, once the table cannot grow)");
    VX_REACH_GUARD();
}
