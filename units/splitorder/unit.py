# unit splitorder — property C27 (+ the split-list part of C17)
BR = 'cds::algo::bit_reversal::'
FILES = {'hp': 'cds/intrusive/split_list.h', 'rcu': 'cds/intrusive/split_list_rcu.h', 'nogc': 'cds/intrusive/split_list_nogc.h'}
MSB = 'cds::bitop::platform::msb64nz(unsigned_long_int)/c_msb64nz'

# `T()(x)`: value-initialised functor temporaries crash the front end (expr_initializer: "struct member must not be of code
# type"); a default-constructed named object of the same stateless functor type is the same C++ semantics
FUNCTOR_TMP = [dict(lit='BitReversalAlgo()(', to='vx_functor(', count=1, why='T()(x) temporary crashes the CBMC C++ front end'),
               dict(re=r'^(\s*)return ', to=r'\1BitReversalAlgo vx_functor; return ', count=1, why='named object for the functor')]
stage = [
    dict(kind='shadow', path='cds/algo/bit_reversal.h', contract_points=[
        dict(name='swar64', anchor=r'/// 64bit\s*uint64_t operator\(\)\( uint64_t x \) const', matches=3, occurrence=0),
        dict(name='lookup64', anchor=r'/// 64bit\s*uint64_t operator\(\)\( uint64_t x \) const', matches=3, occurrence=1),   # the three operators are told apart by their order in the file (swar, lookup, muldiv), not by their bodies
        dict(name='muldiv64', anchor=r'/// 64bit\s*uint64_t operator\(\)\( uint64_t x \) const', matches=3, occurrence=2),
    ]),
    dict(kind='fragment', path='cds/algo/bitop.h', name='BitOps4', anchor=r'template <> struct BitOps<4>', body_only=True),
    dict(kind='fragment', path='cds/algo/bitop.h', name='BitOps8', anchor=r'template <> struct BitOps<8>', body_only=True),
    dict(kind='verbatim', path='cds/details/bitop_generic.h'),
    dict(kind='shadow', path='cds/compiler/bitop.h', rewrites=[
        dict(lit='#       include <cds/compiler/gcc/amd64/bitop.h>', to='#       include <vx_asm_bitop.h>', count=1,
             why='inline asm (bsr/bsf) invisible to CBMC: assumed contract c_msb64nz')]),
    dict(kind='fragment', path='cds/intrusive/details/split_list_base.h', name='regular_hash',
         anchor=r'template <typename BitReversalAlgo>\s*static inline size_t regular_hash\(\s*size_t \w+\s*\)', rewrites=FUNCTOR_TMP),
    dict(kind='fragment', path='cds/intrusive/details/split_list_base.h', name='dummy_hash',
         anchor=r'template <typename BitReversalAlgo>\s*static inline size_t dummy_hash\(\s*size_t \w+\s*\)', rewrites=FUNCTOR_TMP),
]
MM = dict(re=r'memory_model::memory_order_(\w+)', to=r'atomics::memory_order_\1', count='1+', why='typedef scope; orders ignored by the SC stub')
stage.append(dict(kind='fragment', path=FILES['hp'], name='max_item_count', anchor=r'static size_t max_item_count\(\s*size_t \w+, size_t \w+\s*\)'))
stage.append(dict(kind='fragment', path=FILES['hp'], name='inc_item_count', anchor=r'void inc_item_count\(\)', rewrites=[MM,
    dict(lit='std::numeric_limits<size_t>::max()', to='SIZE_MAX', count=1, why='numeric_limits (libstdc++) -> the same constant')]))
decl_rules = [dict(path='cds/details/size_t_cast.h', re=r'struct size_t_unsigned<8>\s*\{\s*typedef uint64_t type;', count=1),
              dict(path='cds/details/size_t_cast.h', re=r'return static_cast< size_t_unsigned<sizeof\( size_t \)>::type>\( n \);', count=1)]
for t, f in FILES.items():
    stage.append(dict(kind='fragment', path=f, name='bucket_no_' + t, anchor=r'size_t bucket_no\(\s*size_t \w+\s*\) const'))
    stage.append(dict(kind='fragment', path=f, name='parent_bucket_' + t, anchor=r'static size_t parent_bucket\(\s*size_t \w+\s*\)'))
    decl_rules.append(dict(path=f, re=r'atomics::atomic<size_t>\s+m_nBucketCountLog2;', count=1))


# ---- auxiliary (dummy) node allocation of the two bucket tables (C17)
SB = 'cds/intrusive/details/split_list_base.h'
NEWAUX_WHY = 'placement new -> ghost notification + the same default construction'
PFREE = dict(lit='auto pFree = m_freeList.get();', to='void* pFree = m_freeList.get();', count=1, why='CBMC types `auto` as int; the free-list node pointer is only cast back to aux_node_type*')
stage.append(dict(kind='fragment', path=SB, name='st_alloc_aux_node', anchor=r'aux_node_type\* alloc_aux_node\(\)', occurrence=0,
                  rewrites=[dict(re=r'new\(\s*((?:[^()]|\([^()]*\))+?)\s*\) aux_node_type\(\)', to=r'vx_construct( \1 )', count=1, why=NEWAUX_WHY), PFREE]))
stage.append(dict(kind='fragment', path=SB, name='st_capacity', anchor=r'size_t capacity\(\) const', occurrence=0))
stage.append(dict(kind='fragment', path=SB, name='exp_alloc_aux_node', anchor=r'aux_node_type\* alloc_aux_node\(\)', occurrence=1,
                  rewrites=[dict(re=r'new\(\s*((?:[^()]|\([^()]*\))+?)\s*\) aux_node_type\(\)', to=r'vx_construct( \1 )', count=2, why=NEWAUX_WHY), PFREE]))
stage.append(dict(kind='fragment', path=SB, name='exp_free_aux_node', anchor=r'void free_aux_node\( aux_node_type\* \w+ \)', occurrence=1))
decl_rules.append(dict(path=SB, re=r'aux_node_segment\(\)\s*: next_segment\( nullptr \)\s*\{\s*aux_node_count\.store\( 0, atomics::memory_order_release \);', count=1))
decl_rules.append(dict(path=SB, re=r'return reinterpret_cast<aux_node_type\*>\( this \+ 1 \);', count=1))
decl_rules.append(dict(path=SB, re=r'm_auxNodeList = allocate_aux_segment\(\);', count=1))


def g(name, fn, replace=(), defines=(), tier='quick', replay=None, timeout=300):
    w = 'w_' + name
    d = dict(name=name, harness='h_' + w, enforce=[w], replace=list(replace), defines=list(defines), tier=tier, functions=fn,
             expect=[w + r'\.postcondition'], timeout=timeout, props=['C27'])
    if replay:
        d['replay'] = replay
    return d


def lemma(name, desc):
    return dict(name=name, harness='h_' + name, enforce=[], replace=['c_regular_hash', 'c_dummy_hash', 'c_bucket_no', 'c_parent_bucket'],
                functions=['lemma over the contracts of regular_hash, dummy_hash, bucket_no, parent_bucket: ' + desc],
                expect=[r'C27\.lemma'], timeout=600, props=['C27'])


RP = lambda case, *v: dict(driver='replay.cpp', case=case, vars=list(v))
groups = []
for R, cp in (('swar', 'swar64'), ('lookup', 'lookup64'), ('muldiv', 'muldiv64')):
    groups.append(g('regular_hash_' + R, ['cds::intrusive::split_list::regular_hash<%s>' % R], replace=['c_rev64'], defines=['VX_CONTRACT_' + cp], replay=RP('regular_hash_' + R, 'h')))
    groups.append(g('dummy_hash_' + R, ['cds::intrusive::split_list::dummy_hash<%s>' % R], replace=['c_rev64'], defines=['VX_CONTRACT_' + cp], replay=RP('dummy_hash_' + R, 'h')))
for t, f in FILES.items():
    groups.append(g('bucket_no_' + t, ['SplitListSet::bucket_no (%s)' % f], replay=RP('bucket_no_' + t, 'k', 'h')))
    groups.append(g('parent_bucket_' + t, ['SplitListSet::parent_bucket (%s)' % f, 'cds::bitop::MSBnz -> BitOps<8>::MSBnz (real text) -> msb64nz (asm, assumed)'],
                    replace=[MSB], replay=RP('parent_bucket_' + t, 'b')))
groups += [
    lemma('lemma_parity', 'regular odd, dummies even'),
    lemma('lemma_parent_before_bucket', 'parent dummy < bucket dummy'),
    lemma('lemma_key_after_own_dummy', 'dummy(bucket_no(h)) < regular(h)'),
    lemma('lemma_no_dummy_between', 'no foreign dummy between a bucket dummy and its key'),
    lemma('lemma_bucket_contiguous', 'no foreign dummy between two keys of one bucket'),
]
groups += [
    dict(name='lemma_growth', harness='h_lemma_growth', enforce=[], replace=['c_regular_hash', 'c_dummy_hash', 'c_bucket_no', 'c_parent_bucket'],
         functions=['lemma over the C27 contracts: doubling the bucket table does not move keys out of reach'], expect=[r'C17\.lemma'], timeout=600, props=['C17']),
    dict(name='aux_alloc', harness='h_aux_alloc', enforce=[], dfcc=False, functions=['split_list::expandable_bucket_table::alloc_aux_node/free_aux_node', 'split_list::static_bucket_table::alloc_aux_node'],
         expect=[r'C17\.aux_node_unique'], timeout=900, props=['C17'], unwind=8, replay=dict(driver='replay_aux.cpp', case='aux_alloc', vars=[]),
         bounded='segments of 2 cells (PARAMETER ABSTRACTION of nSegmentSize), up to 4 segments, 6 allocate/free steps chosen freely; static table of 4 cells; single thread'),
    dict(name='inc_item_count', harness='h_inc_item_count', enforce=[], dfcc=False, functions=['SplitListSet::inc_item_count', 'SplitListSet::max_item_count'],
         expect=[r'C17\.inc_item_count'], timeout=600, props=['C17']),
]
# cross-check (thorough): the hash functions with the reversal INLINED (no callee contract)
for R in ('swar', 'lookup', 'muldiv'):
    x = g('regular_hash_' + R, ['cds::intrusive::split_list::regular_hash<%s> [reversal inlined]' % R], tier='thorough')
    x['name'] = 'inl_regular_hash_' + R
    groups.append(x)

UNIT = dict(
    properties=['C27', 'C17'],
    stage=stage, decl_rules=decl_rules,
    cxx=['shim.cpp', 'shim_aux.cpp'], c=['contracts.c', 'contracts_aux.c'], cxxflags=['-Dconstexpr=', '-Dnoexcept=', '-Dexplicit=', '-I/verif/units/bits'],
    groups=groups,
    sabotage=[
        dict(name='aux_segment_slot0_not_reserved', quick=True, props=['C17'], target='exp_alloc_aux_node', lit='new_aux_segment->aux_node_count.fetch_add( 1, memory_model::memory_order_relaxed );', to='', count=1, groups=['aux_alloc'], expect_fail=r'C17\.aux_node_unique'),
        dict(name='bucket_no_int_shift', quick=True, target='bucket_no_hp', re=r'size_t\( 1 \) <<|size_t\(1\) <<', to='1 <<', count=1, groups=['bucket_no_hp'],
             expect_fail=r'w_bucket_no_hp\.postcondition|undefined-shift'),
        dict(name='regular_hash_even', target='regular_hash', lit='| size_t(1)', to='& ~size_t(1)', count=1, groups=['regular_hash_swar'],
             expect_fail=r'w_regular_hash_swar\.postcondition'),
    ],
    trusted_base=[
        'CBMC 6.11 C++ front end (partial) and DFCC contract instrumentation',
        'shell struct for SplitListSet (supplies m_nBucketCountLog2 only; tied to the real declaration by a declaration rule)',
        'SC atomic<T> stub (memory orders ignored)',
        'size_t_cast shell (type selection size_t -> uint64_t assumed; LP64)',
        'ASSUMED contract for the amd64 asm msb64nz; bitop.h sizeof(T) dispatch assumed',
        '64-bit bit-reversal operators are replaced by their C25 contract (c_rev64), which unit bits discharges',
    ],
    assumptions=['size_t is 64 bit (LP64); bucket tables of 2^0..2^63 buckets', 'list ordering compares split-order keys as unsigned integers (comparator of the underlying ordered list is not in this unit)'],
    dropped=['template class context of SplitListSet (traits, GC, ordered list): replaced by the shell', 'memory_model typedef -> relaxed constant (orders are ignored by the SC stub)'],
)
