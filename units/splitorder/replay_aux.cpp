// unit splitorder, part "aux nodes" — native replay against the real cds::container::SplitListSet<nogc> of /repo (header only):
// sets over the expandable bucket table sized for more than one segment of auxiliary nodes, and over the static table; keys are
// inserted one by one with an identity and a low-entropy hash; after every insert every key inserted so far must be found.
// Exit 1 + "REPRODUCED" on the first lost key. An alarm turns a non-terminating operation (cyclic list) into a reproduction.
#include <cstdio>
#include <cstdlib>
#include <csignal>
#include <unistd.h>
#include <vector>
#include <string>
#include <cds/container/michael_list_nogc.h>
#include <cds/container/split_list_set_nogc.h>
namespace cc = cds::container;
struct h_id { size_t operator()(int k) const { return (size_t)k; } };
struct h_low { size_t operator()(int k) const { return (size_t)k & 0xFFu; } };
template <typename H, bool Dyn> struct tr : public cc::split_list::traits {
    typedef cc::michael_list_tag ordered_list; typedef H hash; enum { dynamic_bucket_table = Dyn };
    struct ordered_list_traits : public cc::michael_list::traits { typedef std::less<int> less; };
};
static const char* g_case = "";
static void on_alarm(int) { static const char m[] = "REPRODUCED: an insert/contains did not terminate (the split-ordered list has become cyclic)\n"; ssize_t r = write(1, m, sizeof m - 1); (void)r; _exit(1); }
template <typename H, bool Dyn> static int run(const char* hname, size_t cap, size_t lf, int n) {
    cc::SplitListSet<cds::gc::nogc, int, tr<H, Dyn>> s(cap, lf);
    std::vector<int> ins;
    for (int k = 0; k < n; ++k) {
        if (s.insert(k) != s.end()) ins.push_back(k);
        else { std::printf("REPRODUCED %s: SplitListSet<nogc>(%zu, %zu), %s bucket table, %s hash: insert(%d) of a fresh key failed\n", g_case, cap, lf, Dyn ? "expandable" : "static", hname, k); return 1; }
        for (int x : ins) if (s.contains(x) == s.end()) {
            std::printf("REPRODUCED %s: SplitListSet<nogc>(%zu, %zu), %s bucket table, %s hash: key %d, inserted successfully, is lost right after insert(%d)\n", g_case, cap, lf, Dyn ? "expandable" : "static", hname, x, k); return 1; }
    }
    return 0;
}
int main(int argc, char** argv) {
    g_case = argc > 1 ? argv[1] : "";
    signal(SIGALRM, on_alarm); alarm(60);
    int r = run<h_id, true>("identity", 4096, 1, 300) || run<h_low, true>("low-entropy", 4096, 1, 300) || run<h_id, true>("identity", 16384, 2, 300)
         || run<h_id, false>("identity", 256, 1, 300) || run<h_low, false>("low-entropy", 64, 2, 300);
    if (!r) std::printf("not reproduced over the native scenario search\n");
    return r;
}
