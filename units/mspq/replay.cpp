// unit mspq — native replay against the real cds::intrusive::MSPriorityQueue of /repo (header only), single thread.
//  (1) for heap arrays of 4..16 slots (a buffer type that does not round the size up, and one that reports every index it is
//      asked for): fill to capacity, then every sequence of 4 operations from { push, pop }; compared with a reference multiset;
//  (2) any index outside the heap array is reported (the heap array of a queue whose size is not a power of two).
// Exit 1 + "REPRODUCED" on the first deviation.
#include <cstdio>
#include <cstdlib>
#include <string>
#include <vector>
#include <algorithm>
#include <cds/intrusive/mspriority_queue.h>
static size_t g_oob_index = 0; static size_t g_oob_cap = 0;
// a buffer with exactly the requested number of cells that checks every index (cells beyond the end are redirected to a spare one)
template <typename T> struct checked_buffer {
    typedef T value_type; template <typename Q> struct rebind { typedef checked_buffer<Q> other; };
    std::vector<T> m; T spare; size_t cap;
    checked_buffer(size_t n) : m(n), spare(), cap(n) {}
    size_t capacity() const { return cap; }
    T& operator[](size_t i) { if (i >= cap) { if (!g_oob_cap) { g_oob_index = i; g_oob_cap = cap; } return spare; } return m[i]; }
    T const& operator[](size_t i) const { return const_cast<checked_buffer*>(this)->operator[](i); }
    void zeroize() {}
};
struct item { int prio; int id; };
struct cmp { int operator()(item const& a, item const& b) const { return a.prio < b.prio ? -1 : a.prio > b.prio ? 1 : 0; } };
struct traits : public cds::intrusive::mspriority_queue::traits { typedef checked_buffer<void*> buffer; typedef cmp compare; };
typedef cds::intrusive::MSPriorityQueue<item, traits> pq_t;
int main(int argc, char** argv) {
    std::string c = argc > 1 ? argv[1] : "";
    bool want_fit_only = c.find("any_size") == std::string::npos;
    for (size_t slots = 4; slots <= 16; ++slots) {
        size_t capn = slots - 1;
        { cds::bitop::bit_reverse_counter<> brc; bool fits = true; for (size_t i = 0; i < capn; ++i) if (brc.inc() >= slots) fits = false;
          if (!fits && want_fit_only) continue;          // the slot order of the item counter leaves this array: reported by the any_size case only
          if (fits && !want_fit_only) continue; }
        for (unsigned code = 0; code < 16; ++code) for (int variant = 0; variant < 3; ++variant) {
            g_oob_cap = 0;
            pq_t q(slots);
            std::vector<item> items(capn + 4); std::vector<int> in(capn + 4, 0); size_t used = 0; std::string seq;
            for (size_t i = 0; i < items.size(); ++i) { items[i].id = (int)i; items[i].prio = variant == 0 ? (int)((i * 7 + 3) % 11) : variant == 1 ? (int)(items.size() - i) : (int)i; }
            if (capn == 6 && variant == 0) { int pr[10] = { 10, 5, 9, 1, 8, 2, 0, 3, 4, 6 }; for (size_t i = 0; i < items.size() && i < 10; ++i) items[i].prio = pr[i]; }
            bool bad = false; char what[200] = "";
            for (size_t i = 0; i < capn && !bad; ++i) { if (!q.push(items[i])) { bad = true; std::snprintf(what, sizeof what, "push #%zu failed although only %zu of %zu items are present", i + 1, i, capn); } in[i] = 1; used++; }
            for (int step = 0; step < 4 && !bad && !g_oob_cap; ++step) {
                size_t cnt = std::count(in.begin(), in.end(), 1);
                if ((code >> step) & 1) { seq += " push"; bool ok = q.push(items[used]); if (ok != (cnt < capn)) { bad = true; std::snprintf(what, sizeof what, "push returned %d with %zu of %zu items present", (int)ok, cnt, capn); } if (ok) in[used] = 1; used++; }
                else { seq += " pop"; item* p = q.pop();
                    if (cnt == 0) { if (p) { bad = true; std::snprintf(what, sizeof what, "pop on the empty queue returned an item"); } }
                    else if (!p || !in[p->id]) { bad = true; std::snprintf(what, sizeof what, "pop returned %s", p ? "an item that is not in the queue" : "nothing from a non-empty queue"); }
                    else { int mx = -1000000; for (size_t i = 0; i < items.size(); ++i) if (in[i]) mx = std::max(mx, items[i].prio);
                           if (p->prio != mx) { bad = true; std::snprintf(what, sizeof what, "pop returned priority %d while an item of priority %d is in the queue", p->prio, mx); } in[p->id] = 0; } }
            }
            if (g_oob_cap) { std::printf("REPRODUCED %s: MSPriorityQueue over a heap array of %zu slots (capacity %zu, size not rounded to a power of two): the queue indexes slot %zu, outside the array, while being filled\n", c.c_str(), g_oob_cap, g_oob_cap - 1, g_oob_index); return 1; }
            if (bad && !g_oob_cap) { std::printf("REPRODUCED %s: MSPriorityQueue, heap array of %zu slots (capacity %zu), filled, then%s: %s\n", c.c_str(), slots, capn, seq.c_str(), what); return 1; }
            while (q.pop()) {}
        }
    }
    std::printf("not reproduced over the native sequence search\n");
    return 0;
}
