/* unit mspq — property C11, MSPriorityQueue part.
   (1) sequential: any k pushes followed by k pops return the pushed items in non-increasing priority order, each exactly once
       (no loss, no duplication); push fails only when capacity items are present;
   (2) lock discipline (what keeps (1) true when a push overlaps a pop): every lock taken is released exactly once; while an
       operation is between its first lock and its last unlock it always holds at least one lock; and the slot index that
       the item counter hands out under the heap-size lock is LOCKED before the heap-size lock is released (otherwise a
       concurrent operation can be given the same slot while it still / already holds an item). */
#include <vx_c.h>
#ifndef VX_HCAP
#define VX_HCAP 8
#endif
#ifndef VX_K
#define VX_K 3
#endif
static int nondet_int(void) { int v; return v; }
const void* w_heap_lock(void); const void* w_node_lock(size_t); vx_bool w_push(unsigned, int); int w_pop(int*); size_t w_count(void);
int held_heap; int held_node[VX_HCAP]; int total_held; size_t pending_slot; int pending; int pending_touched;
void vx_counter_slot(size_t slot, int op) {
    __CPROVER_assert(held_heap, "C11.locks: the item counter is changed only under the heap-size lock");
#ifdef VX_NONFIT
    __CPROVER_assert(slot >= 1 && slot < VX_HCAP, "C11.slot_in_array_any_size: the slot handed out by the counter lies inside a heap array whose size is not a power of two");
#else
    __CPROVER_assert(slot >= 1 && slot < VX_HCAP, "C11.locks: the slot handed out by the counter lies inside the heap array");
#endif
    pending_slot = slot; pending = 1; pending_touched = (slot < VX_HCAP && held_node[slot]);
#ifdef VX_NONFIT
    if (slot >= VX_HCAP) pending = 0;      /* already reported above; the lock hand-over rule is not asked about a slot that does not exist */
#endif
}
void vx_lk(const void* lk, int op) {
    int d = (op == 1) ? 1 : -1;
    if (lk == w_heap_lock()) {
        if (op == 2 && pending) { __CPROVER_assert(pending_touched, "C11.locks: the slot handed out by the item counter is locked (or was already processed under its lock) before the heap-size lock is released"); pending = 0; }
        held_heap += d; __CPROVER_assert(held_heap == 0 || held_heap == 1, "C11.locks: heap-size lock taken/released in balance");
    } else {
        for (unsigned i = 0; i < VX_HCAP; ++i) if (lk == w_node_lock(i)) { held_node[i] += d; if (op == 1 && pending && i == pending_slot) pending_touched = 1; __CPROVER_assert(held_node[i] == 0 || held_node[i] == 1, "C11.locks: node lock taken/released in balance (never twice by the same operation)"); }
    }
    total_held += d;
    __CPROVER_assert(total_held >= 0, "C11.locks: no unlock without lock");
}
void h_push_pop_seq(void) {
    unsigned k = (unsigned)nondet_int() % (VX_K + 1);
    int prios[VX_K], got[VX_K]; int seen[VX_K];
    for (unsigned i = 0; i < VX_K; ++i) { prios[i] = nondet_int(); seen[i] = 0; }
    for (unsigned i = 0; i < VX_K; ++i) if (i < k) {
        vx_bool ok = w_push(i, prios[i]);
        __CPROVER_assert(ok, "C11.seq: push succeeds while fewer than capacity items are present");
        __CPROVER_assert(total_held == 0, "C11.locks: push releases every lock it took");
    }
    __CPROVER_assert(w_count() == k, "C11.seq: item count equals the number of pushes");
    int last = 0;
    for (unsigned j = 0; j < VX_K; ++j) if (j < k) {
        int pr = 0; int idx = w_pop(&pr);
        __CPROVER_assert(idx >= 0 && (unsigned)idx < k, "C11.seq: pop returns one of the pushed items while the queue is not empty");
        if (idx >= 0 && (unsigned)idx < VX_K) { __CPROVER_assert(!seen[idx], "C11.seq: no item is returned twice"); seen[idx] = 1; __CPROVER_assert(pr == prios[idx], "C11.seq: the item is returned unchanged"); }
        if (j > 0) __CPROVER_assert(pr <= last, "C11.seq: items come out in non-increasing priority order");
        last = pr;
        __CPROVER_assert(total_held == 0, "C11.locks: pop releases every lock it took");
    }
    int pr2; __CPROVER_assert(w_pop(&pr2) == -1 && w_count() == 0, "C11.seq: afterwards the queue is empty (no item invented, none left)");
    VX_REACH_GUARD();
}
void h_push_full(void) {
    for (unsigned i = 0; i < VX_HCAP - 1; ++i) { vx_bool ok = w_push(i, nondet_int()); __CPROVER_assert(ok, "C11.push_full: push succeeds until capacity items are present"); }
    vx_bool ok = w_push(7, nondet_int());
    __CPROVER_assert(!ok && w_count() == VX_HCAP - 1 && total_held == 0, "C11.push_full: push fails exactly when capacity items are present, changes nothing and holds no lock");
    VX_REACH_GUARD();
}

/* fill to capacity, then any 4 further operations (push or pop, chosen freely), against a reference multiset: push fails exactly when full,
   pop returns a highest-priority item that is present, nothing is lost or returned twice. Exercises the sift-down at the edge of the
   heap array (last slot a left child without a sibling when the array size is odd). */
#define NI (VX_HCAP + 3)
void h_mixed(void) {
    int pr[NI]; int in[NI]; unsigned used = 0;
    for (unsigned i = 0; i < NI; ++i) { pr[i] = nondet_int(); in[i] = 0; }
    for (unsigned i = 0; i < VX_HCAP - 1; ++i) { vx_bool ok = w_push(i, pr[i]); __CPROVER_assert(ok, "C11.mixed: push succeeds while fewer than capacity items are present"); in[i] = 1; used++; }
    for (unsigned step = 0; step < 4; ++step) {
        unsigned c = 0; for (unsigned i = 0; i < NI; ++i) c += in[i];
#ifdef VX_FIXED_PATTERN
        if (step == 1) {            /* quick tier: pop, push, pop, pop on the full queue; the thorough tier chooses freely */
#else
        if (nondet_int() & 1) {
#endif
            vx_bool ok = w_push(used, pr[used]);
            __CPROVER_assert((ok != 0) == (c < VX_HCAP - 1), "C11.mixed: push fails exactly when capacity items are present");
            if (ok) in[used] = 1;
            used++;
        } else {
            int p = 0; int idx = w_pop(&p);
            if (c == 0) __CPROVER_assert(idx == -1, "C11.mixed: pop on the empty queue returns nothing");
            else {
                __CPROVER_assert(idx >= 0 && idx < NI && in[idx < 0 || idx >= NI ? 0 : idx], "C11.mixed: pop returns an item that is in the queue (none lost, none twice)");
                if (idx >= 0 && idx < NI) {
                    for (unsigned i = 0; i < NI; ++i) if (in[i]) __CPROVER_assert(pr[idx] >= pr[i], "C11.mixed: pop returns an item of the highest priority present");
                    __CPROVER_assert(p == pr[idx], "C11.mixed: the item is returned unchanged");
                    in[idx] = 0;
                }
            }
        }
        __CPROVER_assert(total_held == 0, "C11.locks: every operation releases every lock it took");
    }
    unsigned c = 0; for (unsigned i = 0; i < NI; ++i) c += in[i];
    __CPROVER_assert(w_count() == c, "C11.mixed: item count equals the reference");
    VX_REACH_GUARD();
}
/* filling a queue whose heap array size is not a power of two (a buffer with Exp2 = false) */
void h_fill_any_size(void) {
    for (unsigned i = 0; i < VX_HCAP - 1; ++i) { vx_bool ok = w_push(i, nondet_int()); __CPROVER_assert(ok, "C11.mixed: push succeeds while fewer than capacity items are present"); }
    VX_REACH_GUARD();
}
