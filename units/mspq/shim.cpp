// unit mspq — C11. Real text: enum tag_value, struct node, push, pop, heapify_after_push, heapify_after_pop of
// cds::intrusive::MSPriorityQueue (fragments), the real bit_reverse_counter. Shell: plain struct with the four members,
// ghost locks (every lock/unlock is reported), comparator on an integer priority.
#include <cds/details/defs.h>
#include <cds/algo/atomic.h>
#include <cds/os/thread.h>
#include <cds/algo/backoff_strategy.h>
#include <cds/details/bit_reverse_counter.h>
extern "C" void vx_lk(const void* lock, int op);        // 1 lock, 2 unlock
extern "C" void vx_counter_slot(size_t slot, int op);   // the slot index the item counter just handed out (1 inc, 2 dec)
struct vx_lock { void lock() { vx_lk(this, 1); } void unlock() { vx_lk(this, 2); } };
struct vx_item { int prio; };
template <typename T> static inline void vx_swap( T& a, T& b ) { T t; t = a; a = b; b = t; }
static inline void vx_swap( volatile size_t& a, volatile size_t& b ) { size_t t = a; a = b; b = t; }
#ifndef VX_HCAP
#define VX_HCAP 8
#endif
struct shell_mspq {
    typedef vx_item value_type; typedef vx_lock lock_type; typedef cds::backoff::empty back_off;
    typedef cds::OS::ThreadId tag_type;
    struct key_comparator { int operator()( vx_item const& a, vx_item const& b ) const { return a.prio < b.prio ? -1 : ( a.prio > b.prio ? 1 : 0 ); } };
    struct stat { void onPushFailed() {} void onPushSuccess() {} void onPopFailed() {} void onPopSuccess() {} void onPushHeapifySwap() {} void onItemMovedTop() {} void onItemMovedUp() {} void onPushEmptyPass() {} void onPopHeapifySwap() {} };
    // the item counter is the real class; the wrapper only reports the slot it hands out to the ghost
    struct item_counter { typedef size_t counter_type; cds::bitop::bit_reverse_counter<size_t> c;
        size_t value() const { return c.value(); } size_t inc() { size_t s = c.inc(); vx_counter_slot(s, 1); return s; } size_t dec() { size_t s = c.dec(); vx_counter_slot(s, 2); return s; } };
    typedef size_t counter_type;
#include <tag_value.inc>
#include <node.inc>
    struct buffer_type { mutable node m[VX_HCAP]; size_t capacity() const { return VX_HCAP; } 
#ifdef VX_NONFIT
        node& operator[]( size_t i ) const { return m[ i < VX_HCAP ? i : 0 ]; }      // finding group only: an index outside the array is reported by the ghost (vx_counter_slot); slot 0 is unused by the heap
#else
        node& operator[]( size_t i ) const { return m[i]; }
#endif
    };
    item_counter m_ItemCounter; mutable lock_type m_Lock; buffer_type m_Heap; stat m_Stat;
    size_t capacity() const { return m_Heap.capacity() - 1; }
#include <push.inc>
#include <pop.inc>
#include <heapify_after_push.inc>
#include <heapify_after_pop.inc>
};
static shell_mspq g_q; static vx_item g_items[VX_HCAP + 3];
extern "C" {
const void* w_heap_lock(void) { return &g_q.m_Lock; }
const void* w_node_lock(size_t i) { return &g_q.m_Heap.m[i].m_Lock; }
bool w_push(unsigned k, int prio) { g_items[k].prio = prio; return g_q.push(g_items[k]); }
int w_pop(int* prio) { vx_item* p = g_q.pop(); if (!p) return -1; *prio = p->prio; return (int)(p - g_items); }
size_t w_count(void) { return g_q.m_ItemCounter.value(); }
}
