# unit mspq — property C11 (MSPriorityQueue part): sequential conservation / priority order on bounded operation sequences,
# and the lock hand-over rule that makes the counter->slot hand-off atomic under overlap of push and pop
MQ = 'cds/intrusive/mspriority_queue.h'
SWAP = dict(re=r'std::swap\( ([^,]+), ([^)]+) \);', to=r'vx_swap( \1, \2 );', count='1+', why='std::swap (libstdc++) -> the same three assignments in the shell')


def frag(name, anchor, rewrites=None, **kw):
    d = dict(kind='fragment', path=MQ, name=name, anchor=anchor, rewrites=rewrites or [])
    d.update(kw)
    return d


def G(name, harness, fns, expect, unwind=10, timeout=1200, defines=()):
    return dict(name=name, harness=harness, enforce=[], dfcc=False, functions=fns, expect=expect, props=['C11'], timeout=timeout, unwind=unwind, defines=list(defines), replay=dict(driver='replay.cpp', case=name, vars=[]), defines_tier={'quick': ['VX_K=3'], 'thorough': ['VX_K=4']},
                bounded='heap capacity 7 (buffer of 8), sequences of <= 3 pushes followed by <= 3 pops (quick) / 4+4 (thorough), priorities symbolic (equal priorities allowed); single thread')


UNIT = dict(
    properties=['C11'],
    stage=[
        dict(kind='verbatim', path='cds/details/bit_reverse_counter.h'),
        dict(kind='fragment', path='cds/algo/bitop.h', name='BitOps4', anchor=r'template <> struct BitOps<4>', body_only=True),
        dict(kind='fragment', path='cds/algo/bitop.h', name='BitOps8', anchor=r'template <> struct BitOps<8>', body_only=True),
        dict(kind='verbatim', path='cds/details/bitop_generic.h'),
        dict(kind='shadow', path='cds/compiler/bitop.h', rewrites=[
            dict(lit='#       include <cds/compiler/gcc/amd64/bitop.h>', to='#       include <vx_asm_bitop.h>', count=1, why='inline asm invisible to CBMC; not used by the counter')]),
        frag('tag_value', r'enum tag_value(?= \{)', semicolon=True),
        frag('node', r'struct node(?= \{)', semicolon=True),
        frag('push', r'bool push\( value_type& \w+ \)'),
        frag('pop', r'value_type \* pop\(\)', rewrites=[SWAP]),
        frag('heapify_after_push', r'void heapify_after_push\( counter_type \w+, tag_type \w+ \)', rewrites=[SWAP]),
        frag('heapify_after_pop', r'void heapify_after_pop\( node \* \w+ \)', rewrites=[SWAP]),
    ],
    decl_rules=[
        dict(path=MQ, re=r'item_counter\s+m_ItemCounter\s*;\s*///< Item counter\s*mutable lock_type\s+m_Lock\s*;', count=1),
        dict(path=MQ, re=r'typedef typename cds::bitop::bit_reverse_counter<> item_counter;', count=1),
        dict(path=MQ, re=r'typedef cds::OS::ThreadId\s+tag_type;', count=1),
    ],
    cxx=['shim.cpp'], c=['contracts.c'], cxxflags=['-Dconstexpr=', '-Dnoexcept=', '-Dexplicit=', '-I/verif/units/bits'],
    sabotage=[
        dict(name='heapify_pop_one_range_check', quick=True, target='heapify_after_pop', lit='nChild < nCapacity; nChild *= 2 ) {', to='nChild + 1 < nCapacity; nChild *= 2 ) {', count=1, groups=['mixed_cap6'], expect_fail=r'C11\.mixed'),
        dict(name='pop_releases_heap_lock_early', quick=True, target='pop', re=r'refBottom\.lock\(\);\s*m_Lock\.unlock\(\);', to='m_Lock.unlock(); refBottom.lock();', count=1, groups=['push_pop_seq'], expect_fail=r'C11\.locks: the slot handed out'),
        dict(name='heapify_pop_wrong_child', target='heapify_after_pop', lit='cmp( *refRight.m_pVal, *pChild->m_pVal ) > 0', to='cmp( *refRight.m_pVal, *pChild->m_pVal ) < 0', count=1, groups=['push_pop_seq'], expect_fail=r'C11\.seq: items come out'),
        dict(name='push_capacity_off_by_one', target='push', lit='if ( m_ItemCounter.value() >= capacity()) {', to='if ( m_ItemCounter.value() + 1 >= capacity()) {', count=1, groups=['push_full'], expect_fail=r'C11\.push_full'),
    ],
    trusted_base=[
        'ghost locks: lock/unlock are reported to the ghost and do nothing else (no contention in the single-threaded harness)',
        'the lock hand-over rule is the mechanism of Hunt et al. that makes the counter->slot hand-off atomic; that it suffices for conservation under overlap is a paper argument',
        'shell struct for the class template (members tied to the real declarations); value type = struct with an int priority; real bit_reverse_counter',
        'CBMC 6.11 C++ front end',
    ],
    assumptions=['BOUNDED: capacity 7, <= 3 pushes then <= 3 pops with symbolic priorities; single thread',
                 'concurrent overlap of heapify steps is not explored; FCPriorityQueue is not covered'],
    dropped=['template class context', 'std::swap -> three assignments'],
    groups=[
        G('push_pop_seq', 'h_push_pop_seq', ['MSPriorityQueue::push', 'pop', 'heapify_after_push', 'heapify_after_pop', 'bit_reverse_counter::inc/dec'], [r'C11\.seq', r'C11\.locks']),
        G('push_full', 'h_push_full', ['MSPriorityQueue::push'], [r'C11\.push_full']),
        dict(G('mixed_cap6', 'h_mixed', ['MSPriorityQueue::push', 'pop', 'heapify_after_push', 'heapify_after_pop', 'bit_reverse_counter::inc/dec'], [r'C11\.mixed'], defines=['VX_HCAP=7', 'VX_FIXED_PATTERN'], timeout=1800, unwind=5), unwindset=dict({'h_mixed.%d' % i: 12 for i in range(8)}, **{'vx_lk.0': 12}),
             bounded='heap array of 7 slots (capacity 6, the last slot a left child without a sibling): filled, then pop, push, pop, pop; priorities symbolic; single thread'),
        dict(G('mixed_cap6_free', 'h_mixed', ['MSPriorityQueue::push', 'pop', 'heapify_after_push', 'heapify_after_pop', 'bit_reverse_counter::inc/dec'], [r'C11\.mixed'], defines=['VX_HCAP=7'], timeout=7200, unwind=5), tier='thorough', unwindset=dict({'h_mixed.%d' % i: 12 for i in range(8)}, **{'vx_lk.0': 12}),
             bounded='heap array of 7 slots (capacity 6): filled, then any 4 operations; priorities symbolic; single thread'),
        dict(G('mixed_cap7', 'h_mixed', ['MSPriorityQueue::push', 'pop', 'heapify_after_push', 'heapify_after_pop', 'bit_reverse_counter::inc/dec'], [r'C11\.mixed'], defines=['VX_HCAP=8'], timeout=7200, unwind=5), tier='thorough', unwindset=dict({'h_mixed.%d' % i: 13 for i in range(8)}, **{'vx_lk.0': 13}),
             bounded='heap array of 8 slots (capacity 7): filled, then any 4 operations; priorities symbolic; single thread'),
        dict(G('fill_cap5_any_size', 'h_fill_any_size', ['MSPriorityQueue::push', 'bit_reverse_counter::inc'], [r'C11\.slot_in_array_any_size'], defines=['VX_HCAP=6', 'VX_NONFIT']),
             bounded='heap array of 6 slots (capacity 5): filled once'),
    ],
)
