// unit bits — native replay driver: compiled with g++ against /repo's current headers.
// usage: replay <case> name=value...   exit 1 + "REPRODUCED" if the real function disagrees with
// the reference definition on that input, exit 0 otherwise.
#include <cstdio>
#include <cstdlib>
#include <cstring>
#include <string>
#include <map>
#include <cds/algo/bit_reversal.h>
#include <cds/algo/int_algo.h>
#include <cds/algo/split_bitstring.h>

typedef unsigned long long ull;
static std::map<std::string, ull> A;
static ull arg(const char* n) { return A.count(n) ? A[n] : 0; }

static ull ref_rev(ull x, unsigned W) { ull r = 0; for (unsigned i = 0; i < W; ++i) if ((x >> i) & 1) r |= 1ull << (W - 1 - i); return r; }
static int ref_msb(ull x) { int r = 0; while (x) { ++r; x >>= 1; } return r; }
static int ref_lsb(ull x) { if (!x) return 0; int r = 1; while (!(x & 1)) { ++r; x >>= 1; } return r; }
static int ref_pop(ull x) { int c = 0; while (x) { c += x & 1; x >>= 1; } return c; }
static bool ref_pow2(ull x) { return ref_pop(x) == 1; }

static int fail(const char* what, ull in, ull got, ull want) {
    std::printf("REPRODUCED %s: input=0x%llx real code returned 0x%llx, definition gives 0x%llx\n", what, in, got, want);
    return 1;
}
#define CMP(what, in, got, want) do { ull g_ = (ull)(got), w_ = (ull)(want); if (g_ != w_) return fail(what, in, g_, w_); std::printf("ok %s input=0x%llx -> 0x%llx\n", what, (ull)(in), g_); return 0; } while (0)

#include "replay_split.inc"

int main(int argc, char** argv) {
    if (argc < 2) return 2;
    std::string c = argv[1];
    for (int i = 2; i < argc; ++i) { char* eq = std::strchr(argv[i], '='); if (!eq) continue; *eq = 0; A[argv[i]] = std::strtoull(eq + 1, nullptr, 0); }
    using namespace cds::algo::bit_reversal;
    namespace P = cds::bitop::platform;
    ull x = arg("x"), n = arg("n"), v = arg("v");
    if (c == "swar32") CMP("swar32", x, swar()((uint32_t)x), ref_rev((uint32_t)x, 32));
    if (c == "swar64") CMP("swar64", x, swar()((uint64_t)x), ref_rev(x, 64));
    if (c == "lookup32") CMP("lookup32", x, lookup()((uint32_t)x), ref_rev((uint32_t)x, 32));
    if (c == "lookup64") CMP("lookup64", x, lookup()((uint64_t)x), ref_rev(x, 64));
    if (c == "muldiv32_byte") CMP("muldiv32_byte", x, muldiv::muldiv32_byte((uint8_t)x), ref_rev((uint8_t)x, 8));
    if (c == "muldiv64_byte") CMP("muldiv64_byte", x, muldiv::muldiv64_byte((uint8_t)x), ref_rev((uint8_t)x, 8));
    if (c == "muldiv32_u32") CMP("muldiv32(u32)", x, muldiv::muldiv32((uint32_t)x), ref_rev((uint32_t)x, 32));
    if (c == "muldiv32_u64") CMP("muldiv32(u64)", x, muldiv::muldiv32((uint64_t)x), ref_rev(x, 64));
    if (c == "muldiv64_u32") CMP("muldiv64(u32)", x, muldiv::muldiv64((uint32_t)x), ref_rev((uint32_t)x, 32));
    if (c == "muldiv64_u64") CMP("muldiv64(u64)", x, muldiv::muldiv64((uint64_t)x), ref_rev(x, 64));
    if (c == "muldiv_op32") CMP("muldiv()(u32)", x, muldiv()((uint32_t)x), ref_rev((uint32_t)x, 32));
    if (c == "muldiv_op64") CMP("muldiv()(u64)", x, muldiv()((uint64_t)x), ref_rev(x, 64));
    // note: on amd64 P::msb32 etc. resolve to the inline-asm variants; the generic bodies are reached
    // through replay_generic below (the generic header is re-included in its own namespace)
    if (c == "rbo32") CMP("rbo32", x, P::rbo32((uint32_t)x), ref_rev((uint32_t)x, 32));
    if (c == "rbo64") CMP("rbo64", x, P::rbo64(x), ref_rev(x, 64));
    if (c == "sbc32") CMP("sbc32", x, P::sbc32((uint32_t)x), ref_pop((uint32_t)x));
    if (c == "sbc64") CMP("sbc64", x, P::sbc64(x), ref_pop(x));
    if (c == "zbc32") CMP("zbc32", x, P::zbc32((uint32_t)x), 32 - ref_pop((uint32_t)x));
    if (c == "zbc64") CMP("zbc64", x, P::zbc64(x), 64 - ref_pop(x));
    if (c == "isPow2_32") CMP("isPow2_32", x, P::isPow2_32((uint32_t)x), ref_pow2((uint32_t)x));
    if (c == "isPow2_64") CMP("isPow2_64", x, P::isPow2_64(x), ref_pow2(x));
    if (c == "complement32") { uint32_t w = (uint32_t)v; bool r = P::complement32(&w, (unsigned)n);
        ull got = ((ull)w << 1) | r, want = ((ull)((uint32_t)v ^ (1u << n)) << 1) | (((uint32_t)v >> n) & 1); CMP("complement32", v, got, want); }
    if (c == "complement64") { uint64_t w = v; bool r = P::complement64(&w, (unsigned)n);
        if (w != (v ^ (1ull << n)) || r != ((v >> n) & 1)) return fail("complement64", v, w, v ^ (1ull << n)); std::printf("ok complement64\n"); return 0; }
    if (c == "g_msb32" || c == "MSB_u32") CMP("MSB(u32)", x, cds::bitop::MSB((uint32_t)x), ref_msb((uint32_t)x));
    if (c == "g_msb64" || c == "MSB_u64") CMP("MSB(u64)", x, cds::bitop::MSB((uint64_t)x), ref_msb(x));
    if (c == "g_lsb32" || c == "LSB_u32") CMP("LSB(u32)", x, cds::bitop::LSB((uint32_t)x), ref_lsb((uint32_t)x));
    if (c == "g_lsb64" || c == "LSB_u64") CMP("LSB(u64)", x, cds::bitop::LSB((uint64_t)x), ref_lsb(x));
    if (c == "log2floor") CMP("log2floor", n, cds::beans::log2floor((size_t)n), n ? ref_msb(n) - 1 : 0);
    if (c == "log2ceil") { ull want = n <= 1 ? 0 : (ull)ref_msb(n - 1); CMP("log2ceil", n, cds::beans::log2ceil((size_t)n), want); }
    if (c == "floor2") CMP("floor2", n, cds::beans::floor2((size_t)n), n ? 1ull << (ref_msb(n) - 1) : 1);
    if (c == "ceil2") { ull want = n <= 1 ? 1 : 1ull << ref_msb(n - 1); CMP("ceil2", n, cds::beans::ceil2((size_t)n), want); }
    if (c == "is_power2") CMP("is_power2", n, cds::beans::is_power2((size_t)n), ref_pow2(n));
    if (c == "log2") CMP("log2", n, cds::beans::log2((size_t)n), ref_pow2(n) ? ref_msb(n) - 1 : 0);
    int r = replay_split(c);
    if (r >= 0) return r;
    std::printf("unknown case %s\n", c.c_str());
    return 2;
}
