# unit bits — property C25: bit-manipulation helpers are correct for every input.
BR = 'cds::algo::bit_reversal::'
PL = 'cds::bitop::platform::'
GEN = ['VX_GENERIC_BITOP']           # compile the generic C bodies of bitop_generic.h (no asm stand-ins)


def g(name, fn, enforce=None, replace=(), defines=(), unwind=None, tier='quick', extra=None, checks=None, expect=None, timeout=120, replay=None):
    w = enforce or ('w_' + name)
    d = dict(name=name, harness='h_' + w, enforce=[w], replace=list(replace), defines=list(defines), unwind=unwind, tier=tier,
             functions=[fn], expect=(expect if expect is not None else [w + r'\.postcondition']), timeout=timeout, props=['C25'])
    if checks is not None:
        d['checks'] = checks
    if replay:
        d['replay'] = replay
    if extra:
        d.update(extra)
    return d


def lemma(name, harness, replace, fn, defines=(), unwind=None, tier='quick', timeout=120):
    return dict(name=name, harness=harness, enforce=[], replace=list(replace), defines=list(defines), unwind=unwind, tier=tier,
                functions=[fn], expect=[r'C25\.lemma'], timeout=timeout, props=['C25'])


def rp(case, *vars):
    return dict(driver='replay.cpp', case=case, vars=list(vars))


ASM = [PL + 'msb32(unsigned_int)/c_msb32', PL + 'msb64(unsigned_long_int)/c_msb64', PL + 'lsb32(unsigned_int)/c_lsb32',
       PL + 'lsb64(unsigned_long_int)/c_lsb64', PL + 'msb32nz(unsigned_int)/c_msb32nz', PL + 'msb64nz(unsigned_long_int)/c_msb64nz',
       PL + 'lsb32nz(unsigned_int)/c_lsb32nz', PL + 'lsb64nz(unsigned_long_int)/c_lsb64nz']

groups = [
    # ---- cds/algo/bit_reversal.h
    g('swar32', BR + 'swar::operator()(uint32_t)', replay=rp('swar32', 'x')),
    g('swar64', BR + 'swar::operator()(uint64_t)', defines=['VX_CONTRACT_swar32'], replace=['c_rev32'], replay=rp('swar64', 'x')),
    g('lookup32', BR + 'lookup::operator()(uint32_t)', replay=rp('lookup32', 'x')),
    g('lookup64', BR + 'lookup::operator()(uint64_t)', defines=['VX_CONTRACT_lookup32'], replace=['c_rev32'], replay=rp('lookup64', 'x')),
    g('muldiv32_byte', BR + 'muldiv::muldiv32_byte', replay=rp('muldiv32_byte', 'x')),
    g('muldiv64_byte', BR + 'muldiv::muldiv64_byte', replay=rp('muldiv64_byte', 'x')),
    g('muldiv32_u32', BR + 'muldiv::muldiv32(uint32_t)', replace=[BR + 'muldiv::muldiv32_byte(unsigned_char)/c_rev8'], replay=rp('muldiv32_u32', 'x')),
    g('muldiv32_u64', BR + 'muldiv::muldiv32(uint64_t)', replace=[BR + 'muldiv::muldiv32_byte(unsigned_char)/c_rev8'], replay=rp('muldiv32_u64', 'x')),
    g('muldiv64_u32', BR + 'muldiv::muldiv64(uint32_t)', replace=[BR + 'muldiv::muldiv64_byte(unsigned_char)/c_rev8'], replay=rp('muldiv64_u32', 'x')),
    g('muldiv64_u64', BR + 'muldiv::muldiv64(uint64_t)', replace=[BR + 'muldiv::muldiv64_byte(unsigned_char)/c_rev8'], replay=rp('muldiv64_u64', 'x')),
    g('muldiv_op32', BR + 'muldiv::operator()(uint32_t)', replace=[BR + 'muldiv::muldiv64(unsigned_int)/c_rev32'], replay=rp('muldiv_op32', 'x')),
    g('muldiv_op64', BR + 'muldiv::operator()(uint64_t)', replace=[BR + 'muldiv::muldiv64(unsigned_long_int)/c_rev64'], replay=rp('muldiv_op64', 'x')),
    lemma('lemma_involution8', 'h_lemma_involution8', ['c_rev8'], 'lemma over the byte-reversal contract'),
    lemma('lemma_involution32', 'h_lemma_involution32', ['c_rev32'], 'lemma over the 32-bit reversal contract'),
    lemma('lemma_involution64', 'h_lemma_involution64', ['c_rev64'], 'lemma over the 64-bit reversal contract'),
    lemma('lemma_rev_unique32', 'h_lemma_rev_unique32', ['c_rev32'], 'lemma over the 32-bit reversal contract'),
    lemma('lemma_rev_unique64', 'h_lemma_rev_unique64', ['c_rev64'], 'lemma over the 64-bit reversal contract'),
    # ---- cds/details/bitop_generic.h, generic C bodies
    g('msb32', PL + 'msb32 [generic]', defines=GEN, replay=rp('g_msb32', 'x')),
    g('msb32nz', PL + 'msb32nz [generic]', defines=GEN, replace=[PL + 'msb32(unsigned_int)/c_msb32']),
    g('msb64', PL + 'msb64 [generic]', defines=GEN, replace=[PL + 'msb32(unsigned_int)/c_msb32'], replay=rp('g_msb64', 'x')),
    g('msb64nz', PL + 'msb64nz [generic]', defines=GEN, replace=[PL + 'msb64(unsigned_long_int)/c_msb64']),
    g('lsb32', PL + 'lsb32 [generic]', defines=GEN, replay=rp('g_lsb32', 'x')),
    g('lsb32nz', PL + 'lsb32nz [generic]', defines=GEN, replace=[PL + 'lsb32(unsigned_int)/c_lsb32']),
    g('lsb64', PL + 'lsb64 [generic]', defines=GEN, replace=[PL + 'lsb32(unsigned_int)/c_lsb32'], replay=rp('g_lsb64', 'x')),
    g('lsb64nz', PL + 'lsb64nz [generic]', defines=GEN, replace=[PL + 'lsb64(unsigned_long_int)/c_lsb64']),
    g('rbo32', PL + 'rbo32', replay=rp('rbo32', 'x')),
    g('rbo64', PL + 'rbo64', replace=[PL + 'rbo32(unsigned_int)/c_rev32'], replay=rp('rbo64', 'x')),
    g('sbc32', PL + 'sbc32', unwind=33, replay=rp('sbc32', 'x')),
    g('sbc64', PL + 'sbc64', unwind=65, replace=[PL + 'sbc32(unsigned_int)/c_sbc32'], replay=rp('sbc64', 'x')),
    g('zbc32', PL + 'zbc32', unwind=33, replace=[PL + 'sbc32(unsigned_int)/c_sbc32'], replay=rp('zbc32', 'x')),
    g('zbc64', PL + 'zbc64', unwind=65, replace=[PL + 'sbc64(unsigned_long_int)/c_sbc64'], replay=rp('zbc64', 'x')),
    # complement32 computes `1 << nBit` in int: for nBit == 31 that is signed-shift UB with the value every
    # two's-complement compiler produces; the property is about the value, so the signed-overflow check is off here
    g('complement32', PL + 'complement32', checks=['--no-signed-overflow-check'], replay=rp('complement32', 'v', 'n')),
    g('complement64', PL + 'complement64', replay=rp('complement64', 'v', 'n')),
    g('isPow2_32', PL + 'isPow2_32', replay=rp('isPow2_32', 'x')),
    g('isPow2_64', PL + 'isPow2_64', replay=rp('isPow2_64', 'x')),
    # ---- cds/algo/bitop.h front layer over the ASSUMED asm contracts (amd64 configuration = what runs)
    g('MSB_u32', 'cds::bitop::MSB<uint32_t>', replace=ASM), g('MSB_u64', 'cds::bitop::MSB<uint64_t>', replace=ASM),
    g('LSB_u32', 'cds::bitop::LSB<uint32_t>', replace=ASM), g('LSB_u64', 'cds::bitop::LSB<uint64_t>', replace=ASM),
    g('MSBnz_u32', 'cds::bitop::MSBnz<uint32_t>', replace=ASM), g('MSBnz_u64', 'cds::bitop::MSBnz<uint64_t>', replace=ASM),
    g('LSBnz_u32', 'cds::bitop::LSBnz<uint32_t>', replace=ASM), g('LSBnz_u64', 'cds::bitop::LSBnz<uint64_t>', replace=ASM),
    g('SBC_u32', 'cds::bitop::SBC<uint32_t>', unwind=33, replace=[PL + 'sbc32(unsigned_int)/c_sbc32']),
    g('SBC_u64', 'cds::bitop::SBC<uint64_t>', unwind=65, replace=[PL + 'sbc64(unsigned_long_int)/c_sbc64']),
    g('ZBC_u32', 'cds::bitop::ZBC<uint32_t>', unwind=33, replace=[PL + 'sbc32(unsigned_int)/c_sbc32']),
    g('ZBC_u64', 'cds::bitop::ZBC<uint64_t>', unwind=65, replace=[PL + 'sbc64(unsigned_long_int)/c_sbc64']),
    g('RBO_u32', 'cds::bitop::RBO<uint32_t>', replace=[PL + 'rbo32(unsigned_int)/c_rev32']),
    g('RBO_u64', 'cds::bitop::RBO<uint64_t>', replace=[PL + 'rbo64(unsigned_long_int)/c_rev64']),
    # ---- cds/algo/int_algo.h (amd64 configuration: MSBnz -> asm bsrq, assumed contract c_msb64nz)
    g('log2floor', 'cds::beans::log2floor', replace=ASM, replay=rp('log2floor', 'n')),
    g('log2ceil', 'cds::beans::log2ceil', replace=['cds::beans::log2floor(unsigned_long_int)/c_log2floor'], replay=rp('log2ceil', 'n')),
    g('floor2', 'cds::beans::floor2', replace=['cds::beans::log2floor(unsigned_long_int)/c_log2floor'], replay=rp('floor2', 'n')),
    g('ceil2', 'cds::beans::ceil2', replace=['cds::beans::log2ceil(unsigned_long_int)/c_log2ceil'], replay=rp('ceil2', 'n')),
    g('is_power2', 'cds::beans::is_power2', replay=rp('is_power2', 'n')),
    g('log2', 'cds::beans::log2', replace=['cds::beans::log2floor(unsigned_long_int)/c_log2floor', 'cds::beans::is_power2(unsigned_long_int)/c_is_power2'], replay=rp('log2', 'n')),
]

SPLIT = ['VX_SPLIT']
for N, W in [(1, 32), (2, 32), (4, 32), (6, 32), (8, 32), (16, 32), (8, 64), (16, 64)]:
    tier = 'quick' if (N, W) in [(2, 32), (8, 32), (16, 64)] else 'thorough'
    for kind, cls in (('sb', 'split_bitstring'), ('bs', 'byte_splitter')):
        for fn in ('cut', 'safe_cut'):
            nm = '%s_%d_%d_%s' % (kind, N, W, fn)
            groups.append(g(nm, 'cds::algo::%s<bytes[%d],%d,uint%d_t>::%s' % (cls, N, N, W, fn), defines=SPLIT, unwind=W + 2, tier=tier,
                            timeout=600, replay=dict(driver='replay.cpp', case=nm, vars=['count'])))
for tag, W in [('u16', 16), ('i16', 16), ('u32', 32), ('i32', 32), ('u64', 64), ('i64', 64)]:
    for fn in ('cut', 'safe_cut'):
        nm = 'ns_%s_%s' % (tag, fn)
        groups.append(g(nm, 'cds::algo::number_splitter<%s>::%s' % (tag, fn), defines=SPLIT, timeout=300,
                        replay=dict(driver='replay.cpp', case='ns_%s_%s' % (tag, fn), vars=['number', 'count'])))
groups.append(lemma('lemma_sb_reconstruct', 'h_lemma_sb_reconstruct', ['c_sb_cut32'], 'lemma over the split_bitstring::cut contract', defines=SPLIT))

BR_GROUPS = ('swar32', 'swar64', 'lookup32', 'lookup64', 'muldiv32_byte', 'muldiv64_byte', 'muldiv32_u32', 'muldiv32_u64', 'muldiv64_u32', 'muldiv64_u64', 'muldiv_op32', 'muldiv_op64')
for _g in groups:
    if _g['name'] in BR_GROUPS:
        _g['props'] = ['C25', 'C27']

UNIT = dict(
    properties=['C25', 'C27'],     # C27: only the bit-reversal groups (the callee contracts the split-order encoding is verified against)
    stage=[
        dict(kind='shadow', path='cds/algo/bit_reversal.h', contract_points=[
            dict(name='swar32', anchor=r'struct swar \{\s*/// 32bit\s*uint32_t operator\(\)\( uint32_t x \) const'),
            dict(name='lookup32', anchor=r'struct lookup \{\s*/// 32bit\s*uint32_t operator\(\)\( uint32_t x \) const'),
        ]),
        dict(kind='verbatim', path='cds/details/bitop_generic.h'),
        dict(kind='fragment', path='cds/algo/bitop.h', name='BitOps4', anchor=r'template <> struct BitOps<4>', body_only=True),
        dict(kind='fragment', path='cds/algo/bitop.h', name='BitOps8', anchor=r'template <> struct BitOps<8>', body_only=True),
        dict(kind='verbatim', path='cds/algo/int_algo.h'),
        dict(kind='verbatim', path='cds/algo/base.h'),
        dict(kind='shadow', path='cds/algo/split_bitstring.h', rewrites=[
            dict(lit='return count ? cut( count ) : 0;', to='if ( count ) return cut( count ); return 0;', count=3,
                 why='CBMC C++ front end types `c ? f() : 0` as int (type of the literal) instead of the common type uint_type, truncating 64-bit results; the if-form is the same C++ semantics'),
        ]),
        dict(kind='shadow', path='cds/compiler/bitop.h', rewrites=[
            dict(lit='#       include <cds/compiler/gcc/amd64/bitop.h>', to='#       include <vx_asm_bitop.h>', count=1,
                 why='inline asm (bsr/bsf) is invisible to CBMC: body-less declarations with assumed contracts'),
        ]),
    ],
    cxx=['shim.cpp'], c=['contracts.c'], cxxflags=['-Dconstexpr=', '-Dnoexcept=', '-Dexplicit='],
    extra_scan=['split_contracts.inc'],
    # sabotage self-test: property-breaking edits of the STAGED copy (never /repo); the named obligation must fail
    sabotage=[
        dict(name='swar_mask', quick=True, props=['C25', 'C27'], target='cds/algo/bit_reversal.h', lit='x = ( ( ( x & 0xf0f0f0f0 ) >> 4 ) | ( ( x & 0x0f0f0f0f ) << 4 ));',
             to='x = ( ( ( x & 0xf0f0f0f0 ) >> 4 ) | ( ( x & 0x0f0f0f0e ) << 4 ));', count=1, groups=['swar32'], expect_fail=r'w_swar32\.postcondition'),
        dict(name='lookup_table_entry', props=['C25', 'C27'], target='cds/algo/bit_reversal.h', lit='0x0E, 0x8E, 0x4E, 0xCE,', to='0x0E, 0x8E, 0x4E, 0xCF,', count=1,
             groups=['lookup32'], expect_fail=r'w_lookup32\.postcondition'),
        dict(name='cut_mask_int', props=['C25'], target='cds/algo/split_bitstring.h', lit='uint64_t const mask = count < 64 ? ( uint64_t( 1 ) << count ) - 1 : ~uint64_t( 0 );',
             to='uint64_t const mask = ( 1 << count ) - 1;', count=1, groups=['ns_u64_cut'], expect_fail=r'w_ns_u64_cut\.postcondition|cut\.undefined-shift'),
        dict(name='safe_cut_rest', props=['C25'], quick=True, target='cds/algo/split_bitstring.h', lit='unsigned const rest = static_cast<unsigned>( last_ - cur_ ) * c_nBitPerByte;',
             to='unsigned const rest = static_cast<unsigned>( last_ - cur_ - 1 ) * c_nBitPerByte;', count=1, groups=['bs_2_32_safe_cut'], expect_fail=r'w_bs_2_32_safe_cut\.postcondition'),
        dict(name='ceil2_off_by_one', props=['C25'], target='cds/algo/int_algo.h', lit='return ( size_t( 1 ) << i ) < n ? i + 1 : i;', to='return ( size_t( 1 ) << i ) <= n ? i + 1 : i;', count=1,
             groups=['log2ceil'], expect_fail=r'w_log2ceil\.postcondition'),
    ],
    groups=groups,
    trusted_base=[
        'CBMC 6.11 C++ front end (partial) and DFCC contract instrumentation',
        'stub headers /verif/stubs (freestanding typedefs; assert == no-op as in the -DNDEBUG baseline build)',
        'ASSUMED contracts for the amd64 inline-asm bit scans msb32/msb32nz/msb64/msb64nz/lsb32/lsb32nz/lsb64/lsb64nz (cds/compiler/gcc/amd64/bitop.h)',
        'compile-time dispatch of cds::bitop::complement<T> (reinterpret_cast<T&>) is not compiled by the front end; platform::complement32/64 are verified directly',
    ],
    assumptions=[
        'machine arithmetic is NOT idealised: bit-precise LP64 x86-64 model',
        'inline asm variants of MSB/LSB (the ones that run on amd64) satisfy the same contracts as the verified generic C bodies (assumed)',
    ],
    dropped=['constexpr/noexcept/explicit keywords (-D token drops; no run-time meaning)',
             'body of cds/compiler/gcc/amd64/bitop.h (inline asm) replaced by declarations'],
)
