/* unit bits — contracts (C front end), spec predicates, harnesses. Property C25.
   Postconditions are taken from the property statement (mathematical definitions), not from the code. */
#include <vx_c.h>

/* ---------- spec predicates (definitions) */
#define REV8(r, x)  __CPROVER_forall { unsigned i8; (i8 < 8)  ==> (BIT((unsigned)(r), i8) == BIT((unsigned)(x), 7 - i8)) }
#define REV32(r, x) __CPROVER_forall { unsigned i32; (i32 < 32) ==> (BIT(r, i32) == BIT(x, 31 - i32)) }
#define REV64(r, x) __CPROVER_forall { unsigned i64; (i64 < 64) ==> (BIT(r, i64) == BIT(x, 63 - i64)) }
#define ISPOW2(n)   __CPROVER_exists { unsigned kk; (kk < 64) && ((n) == (1UL << kk)) }
/* MSB index m (1..W): x >> (m-1) == 1 ; LSB index l (1..W): bit l-1 set, all lower bits clear */
#define MSB_POST(r, x, W) (((x) == 0) ? ((r) == 0) : ((r) >= 1 && (r) <= (W) && ((x) >> (((r) - 1) & ((W) - 1))) == 1))
#define MSBNZ_POST(r, x, W) ((r) >= 0 && (r) < (W) && ((x) >> ((r) & ((W) - 1))) == 1)
#define LSBNZ_POST(r, x, W, ONE) ((r) >= 0 && (r) < (W) && BIT(x, (r) & ((W) - 1)) == 1 && ((x) & (((ONE) << ((r) & ((W) - 1))) - 1)) == 0)
#define LSB_POST(r, x, W, ONE) (((x) == 0) ? ((r) == 0) : ((r) >= 1 && (r) <= (W) && BIT(x, ((r) - 1) & ((W) - 1)) == 1 && ((x) & (((ONE) << (((r) - 1) & ((W) - 1))) - 1)) == 0))

int spec_pop32(uint32_t x) { int c = 0; for (unsigned i = 0; i < 32; ++i) c += (int)BIT(x, i); return c; }
int spec_pop64(uint64_t x) { int c = 0; for (unsigned i = 0; i < 64; ++i) c += (int)BIT(x, i); return c; }

/* ---------- contract-only functions (callee contracts used at call sites) */
uint8_t  c_rev8(uint8_t b)   __CPROVER_ensures(REV8(__CPROVER_return_value, b)) __CPROVER_assigns();
uint32_t c_rev32(uint32_t x) __CPROVER_ensures(REV32(__CPROVER_return_value, x)) __CPROVER_assigns();
uint64_t c_rev64(uint64_t x) __CPROVER_ensures(REV64(__CPROVER_return_value, x)) __CPROVER_assigns();
int c_msb32(uint32_t x) __CPROVER_ensures(MSB_POST(__CPROVER_return_value, x, 32)) __CPROVER_assigns();
int c_msb64(uint64_t x) __CPROVER_ensures(MSB_POST(__CPROVER_return_value, x, 64)) __CPROVER_assigns();
int c_lsb32(uint32_t x) __CPROVER_ensures(LSB_POST(__CPROVER_return_value, x, 32, 1u)) __CPROVER_assigns();
int c_lsb64(uint64_t x) __CPROVER_ensures(LSB_POST(__CPROVER_return_value, x, 64, 1UL)) __CPROVER_assigns();
/* the ...nz variants REQUIRE a non-zero argument: a caller that can pass 0 fails this precondition */
int c_msb32nz(uint32_t x) __CPROVER_requires(x != 0) __CPROVER_ensures(MSBNZ_POST(__CPROVER_return_value, x, 32)) __CPROVER_assigns();
int c_msb64nz(uint64_t x) __CPROVER_requires(x != 0) __CPROVER_ensures(MSBNZ_POST(__CPROVER_return_value, x, 64)) __CPROVER_assigns();
int c_lsb32nz(uint32_t x) __CPROVER_requires(x != 0) __CPROVER_ensures(LSBNZ_POST(__CPROVER_return_value, x, 32, 1u)) __CPROVER_assigns();
int c_lsb64nz(uint64_t x) __CPROVER_requires(x != 0) __CPROVER_ensures(LSBNZ_POST(__CPROVER_return_value, x, 64, 1UL)) __CPROVER_assigns();
int c_sbc32(uint32_t x) __CPROVER_ensures(__CPROVER_return_value == spec_pop32(x)) __CPROVER_assigns();
int c_sbc64(uint64_t x) __CPROVER_ensures(__CPROVER_return_value == spec_pop64(x)) __CPROVER_assigns();
#define LOG2FLOOR_POST(r, n) (((n) == 0) ? ((r) == 0) : ((r) < 64 && ((n) >> ((r) & 63)) == 1))
#define LOG2CEIL_POST(r, n)  (((n) <= 1) ? ((r) == 0) : ((r) >= 1 && (r) <= 64 && (((n) - 1) >> (((r) - 1) & 63)) == 1))
size_t c_log2floor(size_t n) __CPROVER_ensures(LOG2FLOOR_POST(__CPROVER_return_value, n)) __CPROVER_assigns();
size_t c_log2ceil(size_t n)  __CPROVER_ensures(LOG2CEIL_POST(__CPROVER_return_value, n)) __CPROVER_assigns();
vx_bool c_is_power2(size_t n) __CPROVER_ensures(__CPROVER_return_value == (ISPOW2(n))) __CPROVER_assigns();

/* ---------- contracts on the functions under verification (wrappers = one call of the real function) */
#define REV_CONTRACT(name, T, POST) T name(T x) __CPROVER_ensures(POST(__CPROVER_return_value, x)) __CPROVER_assigns(); \
    void h_##name(void) { T x; T r = name(x); (void)r; VX_REACH_GUARD(); }
REV_CONTRACT(w_swar32, uint32_t, REV32)
REV_CONTRACT(w_swar64, uint64_t, REV64)
REV_CONTRACT(w_lookup32, uint32_t, REV32)
REV_CONTRACT(w_lookup64, uint64_t, REV64)
REV_CONTRACT(w_muldiv32_byte, uint8_t, REV8)
REV_CONTRACT(w_muldiv64_byte, uint8_t, REV8)
REV_CONTRACT(w_muldiv32_u32, uint32_t, REV32)
REV_CONTRACT(w_muldiv32_u64, uint64_t, REV64)
REV_CONTRACT(w_muldiv64_u32, uint32_t, REV32)
REV_CONTRACT(w_muldiv64_u64, uint64_t, REV64)
REV_CONTRACT(w_muldiv_op32, uint32_t, REV32)
REV_CONTRACT(w_muldiv_op64, uint64_t, REV64)
REV_CONTRACT(w_rbo32, uint32_t, REV32)
REV_CONTRACT(w_rbo64, uint64_t, REV64)
#ifndef VX_GENERIC_BITOP
REV_CONTRACT(w_RBO_u32, uint32_t, REV32)
REV_CONTRACT(w_RBO_u64, uint64_t, REV64)
#endif

/* involution lemmas: proved from the reversal CONTRACT alone (both calls replaced by the contract) */
void h_lemma_involution32(void) { uint32_t x; uint32_t y = c_rev32(x); uint32_t z = c_rev32(y);
    __CPROVER_assert(z == x, "C25.lemma: 32-bit reversal is an involution"); VX_REACH_GUARD(); }
void h_lemma_involution64(void) { uint64_t x; uint64_t y = c_rev64(x); uint64_t z = c_rev64(y);
    __CPROVER_assert(z == x, "C25.lemma: 64-bit reversal is an involution"); VX_REACH_GUARD(); }
void h_lemma_involution8(void) { uint8_t x; uint8_t y = c_rev8(x); uint8_t z = c_rev8(y);
    __CPROVER_assert(z == x, "C25.lemma: byte reversal is an involution"); VX_REACH_GUARD(); }
/* the reversal contract determines the result uniquely (so "computes the reference reversal") */
void h_lemma_rev_unique32(void) { uint32_t x; uint32_t y = c_rev32(x); uint32_t z = c_rev32(x);
    __CPROVER_assert(z == y, "C25.lemma: reversal contract is functional (32)"); VX_REACH_GUARD(); }
void h_lemma_rev_unique64(void) { uint64_t x; uint64_t y = c_rev64(x); uint64_t z = c_rev64(x);
    __CPROVER_assert(z == y, "C25.lemma: reversal contract is functional (64)"); VX_REACH_GUARD(); }

#define INT_CONTRACT(name, T, POST) int name(T x) __CPROVER_ensures(POST) __CPROVER_assigns(); \
    void h_##name(void) { T x; int r = name(x); (void)r; VX_REACH_GUARD(); }
#define INT_CONTRACT_NZ(name, T, POST) int name(T x) __CPROVER_requires(x != 0) __CPROVER_ensures(POST) __CPROVER_assigns(); \
    void h_##name(void) { T x; __CPROVER_assume(x != 0); int r = name(x); (void)r; VX_REACH_GUARD(); }
INT_CONTRACT(w_msb32, uint32_t, MSB_POST(__CPROVER_return_value, x, 32))
INT_CONTRACT(w_msb64, uint64_t, MSB_POST(__CPROVER_return_value, x, 64))
INT_CONTRACT(w_lsb32, uint32_t, LSB_POST(__CPROVER_return_value, x, 32, 1u))
INT_CONTRACT(w_lsb64, uint64_t, LSB_POST(__CPROVER_return_value, x, 64, 1UL))
INT_CONTRACT_NZ(w_msb32nz, uint32_t, MSBNZ_POST(__CPROVER_return_value, x, 32))
INT_CONTRACT_NZ(w_msb64nz, uint64_t, MSBNZ_POST(__CPROVER_return_value, x, 64))
INT_CONTRACT_NZ(w_lsb32nz, uint32_t, LSBNZ_POST(__CPROVER_return_value, x, 32, 1u))
INT_CONTRACT_NZ(w_lsb64nz, uint64_t, LSBNZ_POST(__CPROVER_return_value, x, 64, 1UL))
INT_CONTRACT(w_sbc32, uint32_t, __CPROVER_return_value == spec_pop32(x))
INT_CONTRACT(w_sbc64, uint64_t, __CPROVER_return_value == spec_pop64(x))
INT_CONTRACT(w_zbc32, uint32_t, __CPROVER_return_value == 32 - spec_pop32(x))
INT_CONTRACT(w_zbc64, uint64_t, __CPROVER_return_value == 64 - spec_pop64(x))
#ifndef VX_GENERIC_BITOP
INT_CONTRACT(w_MSB_u32, uint32_t, MSB_POST(__CPROVER_return_value, x, 32))
INT_CONTRACT(w_MSB_u64, uint64_t, MSB_POST(__CPROVER_return_value, x, 64))
INT_CONTRACT(w_LSB_u32, uint32_t, LSB_POST(__CPROVER_return_value, x, 32, 1u))
INT_CONTRACT(w_LSB_u64, uint64_t, LSB_POST(__CPROVER_return_value, x, 64, 1UL))
INT_CONTRACT_NZ(w_MSBnz_u32, uint32_t, MSBNZ_POST(__CPROVER_return_value, x, 32))
INT_CONTRACT_NZ(w_MSBnz_u64, uint64_t, MSBNZ_POST(__CPROVER_return_value, x, 64))
INT_CONTRACT_NZ(w_LSBnz_u32, uint32_t, LSBNZ_POST(__CPROVER_return_value, x, 32, 1u))
INT_CONTRACT_NZ(w_LSBnz_u64, uint64_t, LSBNZ_POST(__CPROVER_return_value, x, 64, 1UL))
INT_CONTRACT(w_SBC_u32, uint32_t, __CPROVER_return_value == spec_pop32(x))
INT_CONTRACT(w_SBC_u64, uint64_t, __CPROVER_return_value == spec_pop64(x))
INT_CONTRACT(w_ZBC_u32, uint32_t, __CPROVER_return_value == 32 - spec_pop32(x))
INT_CONTRACT(w_ZBC_u64, uint64_t, __CPROVER_return_value == 64 - spec_pop64(x))
#endif

vx_bool w_complement32(uint32_t* p, unsigned n)
__CPROVER_requires(__CPROVER_is_fresh(p, sizeof(*p)) && n < 32)
__CPROVER_ensures(*p == (__CPROVER_old(*p) ^ (1u << n)))
__CPROVER_ensures(__CPROVER_return_value == (BIT(__CPROVER_old(*p), n) != 0))
__CPROVER_assigns(*p);
void h_w_complement32(void) { uint32_t v; unsigned n; __CPROVER_assume(n < 32); w_complement32(&v, n); VX_REACH_GUARD(); }
vx_bool w_complement64(uint64_t* p, unsigned n)
__CPROVER_requires(__CPROVER_is_fresh(p, sizeof(*p)) && n < 64)
__CPROVER_ensures(*p == (__CPROVER_old(*p) ^ (1UL << n)))
__CPROVER_ensures(__CPROVER_return_value == (BIT(__CPROVER_old(*p), n) != 0))
__CPROVER_assigns(*p);
void h_w_complement64(void) { uint64_t v; unsigned n; __CPROVER_assume(n < 64); w_complement64(&v, n); VX_REACH_GUARD(); }

vx_bool w_isPow2_32(uint32_t x) __CPROVER_ensures(__CPROVER_return_value == (ISPOW2((uint64_t)x))) __CPROVER_assigns();
void h_w_isPow2_32(void) { uint32_t x; w_isPow2_32(x); VX_REACH_GUARD(); }
vx_bool w_isPow2_64(uint64_t x) __CPROVER_ensures(__CPROVER_return_value == (ISPOW2(x))) __CPROVER_assigns();
void h_w_isPow2_64(void) { uint64_t x; w_isPow2_64(x); VX_REACH_GUARD(); }

/* ---------- int_algo.h */
size_t w_log2floor(size_t n) __CPROVER_ensures(LOG2FLOOR_POST(__CPROVER_return_value, n)) __CPROVER_assigns();
void h_w_log2floor(void) { size_t n; w_log2floor(n); VX_REACH_GUARD(); }
size_t w_log2ceil(size_t n) __CPROVER_ensures(LOG2CEIL_POST(__CPROVER_return_value, n)) __CPROVER_assigns();
void h_w_log2ceil(void) { size_t n; w_log2ceil(n); VX_REACH_GUARD(); }
/* documented corner: floor2(0) == ceil2(0) == 1 */
size_t w_floor2(size_t n)
__CPROVER_ensures((n == 0) ? (__CPROVER_return_value == 1)
                  : ((ISPOW2(__CPROVER_return_value)) && __CPROVER_return_value <= n && (n >> 1) < __CPROVER_return_value))
__CPROVER_assigns();
void h_w_floor2(void) { size_t n; w_floor2(n); VX_REACH_GUARD(); }
/* ceil2 is only defined up to 2^63 (the next power of two must be representable) */
size_t w_ceil2(size_t n)
__CPROVER_requires(n <= (1UL << 63))
__CPROVER_ensures((n <= 1) ? (__CPROVER_return_value == 1)
                  : ((ISPOW2(__CPROVER_return_value)) && __CPROVER_return_value >= n && (__CPROVER_return_value >> 1) < n))
__CPROVER_assigns();
void h_w_ceil2(void) { size_t n; __CPROVER_assume(n <= (1UL << 63)); w_ceil2(n); VX_REACH_GUARD(); }
vx_bool w_is_power2(size_t n) __CPROVER_ensures(__CPROVER_return_value == (ISPOW2(n))) __CPROVER_assigns();
void h_w_is_power2(void) { size_t n; w_is_power2(n); VX_REACH_GUARD(); }
size_t w_log2(size_t n)
__CPROVER_ensures((ISPOW2(n)) ? (__CPROVER_return_value < 64 && (1UL << (__CPROVER_return_value & 63)) == n) : (__CPROVER_return_value == 0))
__CPROVER_assigns();
void h_w_log2(void) { size_t n; w_log2(n); VX_REACH_GUARD(); }

#ifdef VX_SPLIT
#include "split_contracts.inc"
#endif
