/* vx: stands in for cds/compiler/gcc/amd64/bitop.h (inline asm bsr/bsf, invisible to CBMC).
   The eight asm functions are declared body-less; callers are verified against ASSUMED contracts
   (contracts.c: c_msb32 ... c_lsb64nz). With -DVX_GENERIC_BITOP nothing is declared here and the
   generic C bodies of cds/details/bitop_generic.h are compiled and verified instead. */
#ifndef VX_ASM_BITOP_H
#define VX_ASM_BITOP_H
#ifndef VX_GENERIC_BITOP
namespace cds { namespace bitop { namespace platform {
#define cds_bitop_msb32_DEFINED
#define cds_bitop_msb32nz_DEFINED
#define cds_bitop_lsb32_DEFINED
#define cds_bitop_lsb32nz_DEFINED
#define cds_bitop_msb64_DEFINED
#define cds_bitop_msb64nz_DEFINED
#define cds_bitop_lsb64_DEFINED
#define cds_bitop_lsb64nz_DEFINED
    int msb32( uint32_t nArg );
    int msb32nz( uint32_t nArg );
    int lsb32( uint32_t nArg );
    int lsb32nz( uint32_t nArg );
    int msb64( uint64_t nArg );
    int msb64nz( uint64_t nArg );
    int lsb64( uint64_t nArg );
    int lsb64nz( uint64_t nArg );
}}}
#endif
#endif
