// unit bits — C++ side: includes the real headers, exposes each function under contract through a
// thin extern "C" wrapper (the wrapper body is a single call of the real function).
#include <cds/algo/bit_reversal.h>
#include <cds/algo/int_algo.h>      // -> cds/algo/bitop.h -> (shadow) cds/compiler/bitop.h -> real bitop_generic.h
#ifdef VX_SPLIT
#include <cds/algo/split_bitstring.h>
#endif

using namespace cds::algo::bit_reversal;

// ---- contract-only C functions (declared with contracts in contracts.c, never defined)
extern "C" uint32_t c_rev32(uint32_t x);
extern "C" uint64_t c_rev64(uint64_t x);

// ---- stand-in definitions for callee contract points (see vx.py contract_point)
#ifdef VX_CONTRACT_swar32
inline uint32_t cds::algo::bit_reversal::swar::operator()(uint32_t x) const { return c_rev32(x); }
#endif
#ifdef VX_CONTRACT_lookup32
inline uint32_t cds::algo::bit_reversal::lookup::operator()(uint32_t x) const { return c_rev32(x); }
#endif

// ---- wrappers: bit_reversal.h
extern "C" uint32_t w_swar32(uint32_t x)   { swar f; return f(x); }
extern "C" uint64_t w_swar64(uint64_t x)   { swar f; return f(x); }
extern "C" uint32_t w_lookup32(uint32_t x) { lookup f; return f(x); }
extern "C" uint64_t w_lookup64(uint64_t x) { lookup f; return f(x); }
extern "C" uint8_t  w_muldiv32_byte(uint8_t b) { return muldiv::muldiv32_byte(b); }
extern "C" uint8_t  w_muldiv64_byte(uint8_t b) { return muldiv::muldiv64_byte(b); }
extern "C" uint32_t w_muldiv32_u32(uint32_t x) { return muldiv::muldiv32(x); }
extern "C" uint64_t w_muldiv32_u64(uint64_t x) { return muldiv::muldiv32(x); }
extern "C" uint32_t w_muldiv64_u32(uint32_t x) { return muldiv::muldiv64(x); }
extern "C" uint64_t w_muldiv64_u64(uint64_t x) { return muldiv::muldiv64(x); }
extern "C" uint32_t w_muldiv_op32(uint32_t x)  { muldiv f; return f(x); }
extern "C" uint64_t w_muldiv_op64(uint64_t x)  { muldiv f; return f(x); }

// ---- wrappers: bitop_generic.h (platform layer)
namespace P = cds::bitop::platform;
extern "C" int w_msb32(uint32_t x)   { return P::msb32(x); }
extern "C" int w_msb32nz(uint32_t x) { return P::msb32nz(x); }
extern "C" int w_msb64(uint64_t x)   { return P::msb64(x); }
extern "C" int w_msb64nz(uint64_t x) { return P::msb64nz(x); }
extern "C" int w_lsb32(uint32_t x)   { return P::lsb32(x); }
extern "C" int w_lsb32nz(uint32_t x) { return P::lsb32nz(x); }
extern "C" int w_lsb64(uint64_t x)   { return P::lsb64(x); }
extern "C" int w_lsb64nz(uint64_t x) { return P::lsb64nz(x); }
extern "C" uint32_t w_rbo32(uint32_t x) { return P::rbo32(x); }
extern "C" uint64_t w_rbo64(uint64_t x) { return P::rbo64(x); }
extern "C" int w_sbc32(uint32_t x) { return P::sbc32(x); }
extern "C" int w_sbc64(uint64_t x) { return P::sbc64(x); }
extern "C" int w_zbc32(uint32_t x) { return P::zbc32(x); }
extern "C" int w_zbc64(uint64_t x) { return P::zbc64(x); }
extern "C" bool w_complement32(uint32_t* p, unsigned n) { return P::complement32(p, n); }
extern "C" bool w_complement64(uint64_t* p, unsigned n) { return P::complement64(p, n); }
extern "C" bool w_isPow2_32(uint32_t x) { return P::isPow2_32(x); }
extern "C" bool w_isPow2_64(uint64_t x) { return P::isPow2_64(x); }

// ---- wrappers: bitop.h front layer (compile-time dispatch on sizeof(T))
#ifndef VX_GENERIC_BITOP
extern "C" int w_MSB_u32(uint32_t x)   { return cds::bitop::MSB(x); }
extern "C" int w_MSB_u64(uint64_t x)   { return cds::bitop::MSB(x); }
extern "C" int w_MSBnz_u32(uint32_t x) { return cds::bitop::MSBnz(x); }
extern "C" int w_MSBnz_u64(uint64_t x) { return cds::bitop::MSBnz(x); }
extern "C" int w_LSB_u32(uint32_t x)   { return cds::bitop::LSB(x); }
extern "C" int w_LSB_u64(uint64_t x)   { return cds::bitop::LSB(x); }
extern "C" int w_LSBnz_u32(uint32_t x) { return cds::bitop::LSBnz(x); }
extern "C" int w_LSBnz_u64(uint64_t x) { return cds::bitop::LSBnz(x); }
extern "C" int w_SBC_u32(uint32_t x)   { return cds::bitop::SBC(x); }
extern "C" int w_SBC_u64(uint64_t x)   { return cds::bitop::SBC(x); }
extern "C" int w_ZBC_u32(uint32_t x)   { return cds::bitop::ZBC(x); }
extern "C" int w_ZBC_u64(uint64_t x)   { return cds::bitop::ZBC(x); }
extern "C" uint32_t w_RBO_u32(uint32_t x) { return cds::bitop::RBO(x); }
extern "C" uint64_t w_RBO_u64(uint64_t x) { return cds::bitop::RBO(x); }
#endif

// ---- wrappers: int_algo.h
extern "C" size_t w_log2floor(size_t n) { return cds::beans::log2floor(n); }
extern "C" size_t w_log2ceil(size_t n)  { return cds::beans::log2ceil(n); }
extern "C" size_t w_floor2(size_t n)    { return cds::beans::floor2(n); }
extern "C" size_t w_ceil2(size_t n)     { return cds::beans::ceil2(n); }
extern "C" bool   w_is_power2(size_t n) { return cds::beans::is_power2(n); }
extern "C" size_t w_log2(size_t n)      { return cds::beans::log2(n); }

#ifdef VX_SPLIT
// ---- split_bitstring.h: splitters. State is passed as void* (C mirror structs in split_contracts.inc).
template <int N> struct vx_bs { uint8_t b[N]; };
#define VX_SB(N, W, U) \
    typedef cds::algo::split_bitstring< vx_bs<N>, N, U > sb_##N##_##W; \
    extern "C" U w_sb_##N##_##W##_cut(const uint8_t* src, size_t* pos, unsigned c) { sb_##N##_##W s(*(const vx_bs<N>*)src, *pos); U r = s.cut(c); *pos = s.bit_offset(); return r; } \
    extern "C" U w_sb_##N##_##W##_safe_cut(const uint8_t* src, size_t* pos, unsigned c) { sb_##N##_##W s(*(const vx_bs<N>*)src, *pos); U r = s.safe_cut(c); *pos = s.bit_offset(); return r; } \
    typedef cds::algo::byte_splitter< vx_bs<N>, N, U > bs_##N##_##W; \
    extern "C" U w_bs_##N##_##W##_cut(const uint8_t* src, size_t* pos, unsigned c) { bs_##N##_##W s(*(const vx_bs<N>*)src, *pos); U r = s.cut(c); *pos = s.bit_offset(); return r; } \
    extern "C" U w_bs_##N##_##W##_safe_cut(const uint8_t* src, size_t* pos, unsigned c) { bs_##N##_##W s(*(const vx_bs<N>*)src, *pos); U r = s.safe_cut(c); *pos = s.bit_offset(); return r; }
VX_SB(1, 32, uint32_t) VX_SB(2, 32, uint32_t) VX_SB(4, 32, uint32_t) VX_SB(6, 32, uint32_t) VX_SB(8, 32, uint32_t) VX_SB(16, 32, uint32_t)
VX_SB(8, 64, uint64_t) VX_SB(16, 64, uint64_t)

#define VX_NS(TAG, T) \
    typedef cds::algo::number_splitter< T > ns_##TAG; \
    extern "C" T w_ns_##TAG##_cut(T number, unsigned* shift, unsigned c) { ns_##TAG s(number, *shift); T r = s.cut(c); *shift = (unsigned) s.bit_offset(); return r; } \
    extern "C" T w_ns_##TAG##_safe_cut(T number, unsigned* shift, unsigned c) { ns_##TAG s(number, *shift); T r = s.safe_cut(c); *shift = (unsigned) s.bit_offset(); return r; }
VX_NS(u16, unsigned short) VX_NS(i16, short) VX_NS(u32, unsigned) VX_NS(i32, int) VX_NS(u64, unsigned long) VX_NS(i64, long)
#endif
