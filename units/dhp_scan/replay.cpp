// unit dhp_scan — native replay on the real cds::gc::DHP singleton (src/dhp.cpp compiled from /repo): fake object addresses,
// counting disposer. Scenarios: the object is protected by the k-th guard of this thread (k = 1..40 reaches the initial array
// and two extension blocks, first and last cells), retired together with unprotected objects, scan() forced; and detach of a
// thread with leftovers followed by re-use of its record, then destruction of the singleton.
#include <cstdio>
#include <cstring>
#include <string>
#include <map>
#include <vector>
#include <thread>
#include <cds/init.h>
#include <cds/gc/dhp.h>
static std::map<void*, int> disposed;
static void disposer(void* p) { disposed[p]++; }
static std::vector<void*> vx_left;
int main(int argc, char** argv) {
    std::string c = argc > 1 ? argv[1] : "";
    int found = 0;
    cds::Initialize();
    {
        size_t initial = 4;
        cds::gc::DHP dhp(initial);
        cds::threading::Manager::attachThread();
        for (unsigned k = 1; k <= 40 && !found; ++k) {
            disposed.clear();
            {
                std::vector<cds::gc::DHP::Guard> gs(k);
                void* prot = (void*)(uintptr_t)(0x10000 + 0x100 * k);
                gs.back().assign(prot);
                std::vector<void*> objs = { (void*)(uintptr_t)(0x200000 + 0x10 * k), prot, (void*)(uintptr_t)(0x300001 + 0x10 * k) };
                for (void* p : objs) cds::gc::DHP::retire(p, disposer);
                cds::gc::DHP::scan();
                if (disposed[prot] > 0) { std::printf("REPRODUCED %s: DHP (initial %zu guards): object protected by guard #%u of the thread was given to its disposer by scan()\n", c.c_str(), initial, k); found = 1; }
                for (void* p : objs) if (p != prot && disposed[p] != 1 && !found && c.find("c03") != std::string::npos) { std::printf("REPRODUCED %s: unprotected retired object disposed %d times\n", c.c_str(), disposed[p]); found = 1; }
            }
            cds::gc::DHP::scan();
        }
        // every guard of the thread holds a distinct object (1..40 live hazards); all of them are retired and scanned: none may be disposed
        for (unsigned k = 1; k <= 40 && !found; ++k) {
            disposed.clear();
            {
                std::vector<cds::gc::DHP::Guard> gs(k);
                for (unsigned i = 0; i < k; ++i) gs[i].assign((void*)(uintptr_t)(0x400000 + 0x40 * i));
                for (unsigned i = 0; i < k; ++i) cds::gc::DHP::retire((void*)(uintptr_t)(0x400000 + 0x40 * i), disposer);
                cds::gc::DHP::scan();
                for (unsigned i = 0; i < k && !found; ++i) if (disposed[(void*)(uintptr_t)(0x400000 + 0x40 * i)] > 0) {
                    std::printf("REPRODUCED %s: DHP: one thread holds %u guards on %u distinct objects, retires all of them and scans: object #%u was given to its disposer while guarded\n", c.c_str(), k, k, i); found = 1; }
            }
            cds::gc::DHP::scan();
        }
        if (!found) {
            std::vector<void*> objs = { (void*)0x5000, (void*)0x6000, (void*)0x7000 };
            disposed.clear();
            {
                cds::gc::DHP::Guard g;
                for (void* x : objs) {
                    g.assign(x);
                    std::thread([x]{ cds::threading::Manager::attachThread(); cds::gc::DHP::retire(x, disposer); cds::threading::Manager::detachThread(); }).join();   // detaches with a leftover (still guarded)
                    std::thread([]{ cds::threading::Manager::attachThread(); cds::threading::Manager::detachThread(); }).join();                                         // re-uses the record
                }
            }
            cds::gc::DHP::scan();
            for (void* x : objs) if (disposed[x] > 1) { std::printf("REPRODUCED %s: object disposed %d times\n", c.c_str(), disposed[x]); found = 1; }
            // whatever is left must be disposed by the destruction of the singleton below
            vx_left = objs;
        }
        cds::threading::Manager::detachThread();
    }
    cds::Terminate();
    for (void* x : vx_left) if (disposed[x] != 1 && !found) { std::printf("REPRODUCED %s: object retired by a thread that detached while it was still guarded (record re-used afterwards) was disposed %d times by the end of the singleton\n", c.c_str(), disposed[x]); found = 1; }
    if (found) return 1;
    std::printf("not reproduced over the native scenario search\n");
    return 0;
}
