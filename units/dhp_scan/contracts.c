/* unit dhp_scan — ghost state and obligations for C02 / C03 (Dynamic Hazard Pointer SMR) */
#include <vx_c.h>
#ifndef VX_NREC
#define VX_NREC 2
#endif
#ifndef VX_H
#define VX_H 1
#endif
#ifndef VX_GCAP
#define VX_GCAP 2
#endif
#ifndef VX_RCAP
#define VX_RCAP 2
#endif
/* object addresses: pointers into one arena (ordering them with < is a same-object comparison); odd and even offsets */
#define VX_ADDR_BOUND 64
char vx_arena[VX_ADDR_BOUND];
void* vx_nondet_ptr(void) { unsigned v; __CPROVER_assume(v >= 1 && v < VX_ADDR_BOUND); return &vx_arena[v]; }
static void* nondet_ptr_or_null(void) { unsigned v; __CPROVER_assume(v < VX_ADDR_BOUND); return v ? (void*)&vx_arena[v] : NULL; }
int vx_nondet_int(void) { int v; return v; }
void vx_throw(void) { __CPROVER_assume(0); }
void vx_vector_overflow(void) { __CPROVER_assume(0); }     /* more hazard values than the harness store holds: outside the bound */
void vx_pool_exhausted(void) { __CPROVER_assume(0); }      /* more blocks than the harness pools hold: outside the bound */
void* vx_alloc(size_t n) { return __CPROVER_allocate(n, 0); }
void vx_free(void* p) { (void)p; }

#ifndef VX_MAXRETIRE
#define VX_MAXRETIRE (VX_RCAP + 1)
#endif
#ifndef VX_WG_MAX
#define VX_WG_MAX (VX_H + VX_GCAP)     /* guards handed out to the witness record: initial array + one full extension block */
#endif
void* vx_P; const void* vx_wslot_addr; int vx_built;
void* vx_T; int vx_T_disposed; int vx_T_retired; int vx_T_unprotected;
#define MAXSLOTS ((VX_NREC + 1) * VX_H + 3 * VX_GCAP)
const void* vx_slots[MAXSLOTS]; unsigned vx_nslots;
#ifdef VX_TWO_RECS
#define MAXRET (2 * VX_MAXRETIRE + 2)
#else
#define MAXRET (VX_MAXRETIRE + 2)
#endif
void* vx_retired_set[MAXRET]; unsigned vx_nret; int vx_kept_P, vx_kept_T;

void vx_register_slot(const void* a) { if (vx_nslots < MAXSLOTS) vx_slots[vx_nslots++] = a; }
void vx_set_witness_slot(const void* a) { vx_wslot_addr = a; }
void vx_world_built(void) { vx_built = 1; }
const void* vx_slot_obj[4];     /* the objects all guards live in: the world's initial arrays, the three extension blocks */
void vx_slot_objects(const void* a, const void* b, const void* c, const void* d) { vx_slot_obj[0] = a; vx_slot_obj[1] = b; vx_slot_obj[2] = c; vx_slot_obj[3] = d; }
int vx_is_slot(const void* addr) {
    if (!vx_built) return 0;
    return __CPROVER_same_object(addr, vx_slot_obj[0]) || __CPROVER_same_object(addr, vx_slot_obj[1]) || __CPROVER_same_object(addr, vx_slot_obj[2]) || __CPROVER_same_object(addr, vx_slot_obj[3]);   /* the only atomics inside these objects are guards */
}
uintptr_t vx_slot_value(const void* addr) {
    if (addr == vx_wslot_addr) return (uintptr_t)vx_P;      /* the witness guard protects P for the whole pass */
    void* r = nondet_ptr_or_null();                          /* any other guard: whatever its owner wrote last */
    if (vx_T_unprotected) __CPROVER_assume(r != vx_T);
    return (uintptr_t)r;
}
void vx_pre_retired(void* p) {
    __CPROVER_assume(p != NULL);
    for (unsigned i = 0; i < MAXRET; ++i) if (i < vx_nret) __CPROVER_assume(vx_retired_set[i] != p);
    if (vx_nret < MAXRET) vx_retired_set[vx_nret++] = p;
    if (p == vx_T) vx_T_retired = 1;
}
void vx_post_retired(void* p) { if (p == vx_P) vx_kept_P++; if (p == vx_T) vx_kept_T++; }
void vf_dispose(void* p) {
    __CPROVER_assert(p != vx_P || vx_P == NULL, "C02.no_free_while_guarded: an object a guard protected for the whole pass was given to its disposer");
    int known = 0;
    for (unsigned i = 0; i < MAXRET; ++i) if (i < vx_nret && vx_retired_set[i] == p) known = 1;
    __CPROVER_assert(known, "C03.no_invention: disposer called on a pointer that was never retired");
    if (p == vx_T) { vx_T_disposed++; __CPROVER_assert(vx_T_disposed <= 1, "C03.at_most_once: a retired object was given to its disposer twice"); }
}
int vx_destroyed_nonempty;
void vx_destroy_record(void* rec, size_t nonempty) { if (nonempty) vx_destroyed_nonempty = 1; }

void w_dhp_scan(size_t n, unsigned wrec, unsigned wguards);
static void pick(int with_witness, int T_unprotected) {
    void* P = vx_nondet_ptr(); void* T = vx_nondet_ptr();
    vx_T = T; vx_T_unprotected = T_unprotected;
    if (with_witness) { vx_P = P; if (T_unprotected) __CPROVER_assume(P != T); } else vx_P = NULL;
}
#ifndef VX_MAXRETIRE
#define VX_MAXRETIRE (VX_RCAP + 1)
#endif
#define MAXRETIRE VX_MAXRETIRE
/* C02: one pass by thread record 0; its retired storage holds n arbitrary distinct pointers spread over up to three blocks;
   the witness guard is the g-th guard handed out to record w by the real alloc(): in the initial array (g <= VX_H) or in an
   extension block added once the initial guards are exhausted (g > VX_H), first or last cell of the block */
void h_scan_c02(void) {
    size_t n; unsigned w, g; __CPROVER_assume(n <= MAXRETIRE && w < VX_NREC && g >= 1 && g <= VX_WG_MAX);
    pick(1, 0);
    w_dhp_scan(n, w, g);
    __CPROVER_assert(vx_kept_P <= 1, "C02.kept_once: a protected retired object stays in the retired storage at most once");
    VX_REACH_GUARD();
}
/* retire_data() over a sorted hazard list of any length up to VX_WIDE_N: a retired pointer that occurs in the list is kept, one that does not is freed */
#ifndef VX_WIDE_N
#define VX_WIDE_N 4
#endif
size_t w_dhp_retire_data_wide(size_t n, void* p);
void* wide_list[VX_WIDE_N];
void* vx_sorted_ptr(size_t i) { return i < VX_WIDE_N ? wide_list[i] : NULL; }
void h_retire_data_wide(void) {
    size_t n, k; __CPROVER_assume(n >= 1 && n <= VX_WIDE_N && k < n);
#ifdef VX_WIDE_FIX
    n = VX_WIDE_FIX; __CPROVER_assume(k < n);        /* one group per list length: the search's control flow is then concrete, the contents stay symbolic */
#endif
    for (unsigned i = 0; i < VX_WIDE_N; ++i) { wide_list[i] = vx_nondet_ptr(); if (i > 0) __CPROVER_assume(wide_list[i - 1] <= wide_list[i]); }   /* scan() sorts the list before the search */
    vx_bool guarded = vx_nondet_int() & 1;
    void* p = vx_nondet_ptr();
    if (guarded) __CPROVER_assume(p == wide_list[k]);
    else for (unsigned i = 0; i < VX_WIDE_N; ++i) if (i < n) __CPROVER_assume(wide_list[i] != p);
    vx_T = p; vx_T_unprotected = !guarded; vx_P = guarded ? p : NULL;
    size_t freed = w_dhp_retire_data_wide(n, p);
    if (guarded) __CPROVER_assert(freed == 0 && vx_kept_P == 1 && vx_T_disposed == 0, "C02.no_free_while_guarded: a retired pointer found in the hazard list (any position, any list length) is kept, not freed");
    else __CPROVER_assert(freed == 1 && vx_T_disposed == 1 && vx_kept_T == 0, "C03.freed_when_unprotected: a retired pointer that no hazard shows is freed");
    VX_REACH_GUARD();
}
void h_scan_c03_free(void) {
    size_t n; unsigned w, g; __CPROVER_assume(n <= MAXRETIRE && w < VX_NREC && g >= 1 && g <= VX_WG_MAX);
    pick(1, 1);
    w_dhp_scan(n, w, g);
    if (vx_T_retired) {
        __CPROVER_assert(vx_T_disposed == 1, "C03.freed_when_unprotected: a pass that runs while no guard protects a retired object frees it");
        __CPROVER_assert(vx_kept_T == 0, "C03.gone_after_free: a disposed object is no longer in the retired storage");
    } else __CPROVER_assert(vx_T_disposed == 0, "C03.no_invention: an object that was not retired is never disposed");
    VX_REACH_GUARD();
}
void h_scan_c03_keep(void) {
    size_t n; unsigned w, g; __CPROVER_assume(n <= MAXRETIRE && w < VX_NREC && g >= 1 && g <= VX_WG_MAX);
    pick(1, 0); __CPROVER_assume(vx_T == vx_P);
    w_dhp_scan(n, w, g);
    if (vx_T_retired) {
        __CPROVER_assert(vx_T_disposed == 0, "C03.kept_when_protected: a protected retired object is not disposed by the pass");
        __CPROVER_assert(vx_kept_T == 1, "C03.kept_exactly_once: a protected retired object stays in the retired storage exactly once");
    }
    VX_REACH_GUARD();
}
void w_dhp_retire(size_t n, unsigned wrec, unsigned wguards); void w_dhp_help_scan(size_t n0, size_t n1); void w_dhp_dtor(size_t n0, size_t n1);
void w_dhp_detach_reuse(size_t n0, unsigned wguards, int call_help_scan, int reuse);
void h_retire(void) {
    size_t n; unsigned w, g; __CPROVER_assume(n <= MAXRETIRE && w < VX_NREC && g >= 1 && g <= VX_WG_MAX);
    pick(1, 0);
    w_dhp_retire(n, w, g);
    __CPROVER_assert(vx_T_disposed + vx_kept_T == vx_T_retired, "C03.retire_conserves: after retire() a retired object is in the retired storage once or was disposed once");
    VX_REACH_GUARD();
}
void h_help_scan(void) {
    size_t n0, n1; __CPROVER_assume(n0 <= VX_RCAP - 1 && n1 <= MAXRETIRE);
    pick(0, 0);
    w_dhp_help_scan(n0, n1);
    __CPROVER_assert(vx_T_disposed + vx_kept_T == vx_T_retired, "C03.help_scan_conserves: every retired object is afterwards in exactly one retired storage or was disposed exactly once");
    VX_REACH_GUARD();
}
void h_dtor(void) {
    size_t n0, n1; __CPROVER_assume(n0 <= MAXRETIRE && n1 <= MAXRETIRE);
    pick(0, 0);
    w_dhp_dtor(n0, n1);
    __CPROVER_assert(vx_T_disposed == vx_T_retired, "C03.dtor_disposes_all: destruction of the singleton disposes every still-retired object exactly once");
    VX_REACH_GUARD();
}
/* detach with leftovers, then the record is re-used by a newly attached thread: nothing retired may get lost */
void h_detach_reuse(void) {
    size_t n0; unsigned g; int help, reuse; __CPROVER_assume(n0 <= MAXRETIRE && g >= 1 && g <= VX_WG_MAX);
#ifdef VX_NO_HELP_SCAN
    __CPROVER_assume(!help);          /* quick tier: detach without the help_scan pass */
#endif
    pick(1, 0);
    w_dhp_detach_reuse(n0, g, help, reuse);
    __CPROVER_assert(vx_T_disposed + vx_kept_T == vx_T_retired, "C03.detach_conserves: after detach (and after the record is re-used by a new thread) a retired object was disposed once or is still in the record's retired storage once");
    VX_REACH_GUARD();
}
