# unit dhp_scan — Dynamic Hazard Pointer reclamation (C02: never frees a guarded object; C03: every retired object disposed exactly once)
H = 'cds/gc/dhp.h'
S = 'src/dhp.cpp'
AUTO = 'CBMC types `auto` as int; explicit type = what g++ deduces'
DEL = dict(re=r'^\s*\w+\(\s?(?:\w+ const ?&|\w+ ?&&)?\s?\) = delete;\n', to='', count='2+', why='= delete on ctors aborts the front end; deleted functions are never called')


def fh(name, anchor, rewrites=None, **kw):
    d = dict(kind='fragment', path=H, name=name, anchor=anchor, semicolon=True, rewrites=rewrites or [])
    d.update(kw)
    return d


def fs(name, anchor, rewrites=None, **kw):
    d = dict(kind='fragment', path=S, name=name, anchor=anchor, rewrites=rewrites or [])
    d.update(kw)
    return d


stage = [
    dict(kind='shadow', path='cds/gc/details/retired_ptr.h', rewrites=[
        dict(re=r': m_p\( (.+?)\)\s*, m_funcFree\( (.+?) \)\s*\{\}', to=r': m_funcFree( \2 ) { m_p = \1; }', count=4, why='initialiser of an anonymous-union member is rejected by the front end; same stores in the body'),
        dict(re=r'template <typename Func, typename T>\s*static inline cds::gc::details::retired_ptr make_retired_ptr\( T \* p \)\s*\{\s*return[^\n]*\n\s*\}', to='', count=1, why='lambda (unsupported); not on a verified path'),
    ]),
    dict(kind='shadow', path='cds/gc/details/hp_common.h', rewrites=[
        dict(re=r'^\s*\w+\((?:\w+ const ?&|\w+ ?&&)?\) = delete;\n', to='', count=9, why='= delete on ctors'),
        dict(lit='arr_{ nullptr }', to='arr_()', count=1, why='brace initialiser in ctor list'),
        dict(lit='bool push(retired_ptr &&p) noexcept', to='bool push(retired_ptr &p) noexcept', count=1, why='rvalue-reference parameter'),
        dict(lit='static thread_local thread_data* tls_;', to='static thread_data* tls_;', count=1, why='thread_local; not on a verified path'),
        dict(lit='using cds::gc::make_retired_ptr;', to='', count=1, why='function dropped above'),
        dict(lit='new( arr ) guard[nSize];', to='vx_construct_guards( arr, nSize );', count=1, why='placement array-new -> loop of the same default constructions'),
    ]),
    fh('guard_block', r'struct guard_block: public cds::intrusive::FreeListImpl::node', rewrites=[
        dict(lit='guard_block*  next_block_ = nullptr;', to='guard_block*  next_block_;', count=1, why='default member initialiser; every block comes from hp_allocator::alloc(), whose shell part sets it'),
        dict(lit='return reinterpret_cast<guard*>( this + 1 );', to='return vx_gb_first( this );', count=1, why='trailing-array layout trick (guards placed right after the header in one raw allocation) -> shell block type with an explicit array')]),
    fh('thread_hp_storage', r'class thread_hp_storage(?=\s*\{)', rewrites=[DEL,
        dict(lit='new( arr ) guard[nSize];', to='vx_construct_guards( arr, nSize );', count=1, why='placement array-new -> loop of the same default constructions')]),
    fh('retired_block', r'struct retired_block: public cds::intrusive::FreeListImpl::node', rewrites=[
        dict(lit='static size_t const c_capacity = 256;', to='static size_t const c_capacity = VX_RCAP;', count=1, why='PARAMETER ABSTRACTION: block capacity 256 -> small bound (the code is capacity-generic)'),
        dict(lit='return reinterpret_cast<retired_ptr*>( const_cast<retired_block*>( this ) + 1 );', to='return vx_rb_first( this );', count=1, why='trailing-array layout trick -> shell block type with an explicit array')]),
    fh('retired_array', r'class retired_array(?=\s*\{)', rewrites=[DEL,
        dict(lit='current_block_ = list_tail_ = list_tail_->next_ = block;', to='list_tail_->next_ = block; list_tail_ = block; current_block_ = block;', count=1,
             why='chained assignment whose middle target is read on the left (list_tail_ = list_tail_->next_ = block): C++ evaluates right to left, the front end does not; same three stores in C++ order')]),
    fh('thread_data', r'struct thread_data(?= \{)', rewrites=[DEL]),
    fs('defaults', r'struct defaults(?= \{)', semicolon=True, rewrites=[
        dict(lit='static size_t const c_extended_guard_block_size = 16;', to='static size_t const c_extended_guard_block_size = VX_GCAP;', count=1, why='PARAMETER ABSTRACTION: extension block of 16 guards -> small bound')]),
    fs('hp_alloc', r'CDS_EXPORT_API guard_block\* hp_allocator::alloc\(\)', rewrites=[
        dict(lit='auto block = free_list_.get();', to='cds::intrusive::FreeListImpl::node* block = free_list_.get();', count=1, why=AUTO),
        dict(re=r'gb = new\( s_alloc_memory\( sizeof\( guard_block \) \+ sizeof\( guard \) \* defaults::c_extended_guard_block_size \)\) guard_block;\s*new \( gb->first\(\)\) guard\[defaults::c_extended_guard_block_size\];', to='gb = vx_new_guard_block();', count=1,
             why='raw allocation + placement new of header and trailing array -> shell allocation of the block type')]),
    fs('retired_alloc', r'CDS_EXPORT_API retired_block\* retired_allocator::alloc\(\)', rewrites=[
        dict(lit='auto block = free_list_.get();', to='cds::intrusive::FreeListImpl::node* block = free_list_.get();', count=1, why=AUTO),
        dict(re=r'rb = new\( s_alloc_memory\( sizeof\( retired_block \) \+ sizeof\( retired_ptr \) \* retired_block::c_capacity \)\) retired_block;\s*new \( rb->first\(\)\) retired_ptr\[retired_block::c_capacity\];', to='rb = vx_new_retired_block();', count=1,
             why='raw allocation + placement new -> shell allocation of the block type')]),
    fs('thread_record', r'struct smr::thread_record: thread_data', semicolon=True, rewrites=[
        dict(lit='struct smr::thread_record: thread_data', to='struct thread_record: thread_data', count=1, why='nested-class definition outside the class -> inside the shell class'),
        dict(lit='thread_record*                      next_ = nullptr;', to='thread_record*                      next_;', count=1, why='default member initialiser -> ctor body'),
        dict(lit='atomics::atomic<cds::OS::ThreadId>  thread_id_{ cds::OS::c_NullThreadId };', to='atomics::atomic<cds::OS::ThreadId>  thread_id_;', count=1, why='same'),
        dict(lit='atomics::atomic<bool>               free_{ false };', to='atomics::atomic<bool>               free_;', count=1, why='same'),
        dict(lit=': thread_data( guards, guard_count )\n        {}', to=': thread_data( guards, guard_count )\n        { next_ = nullptr; thread_id_.store( cds::OS::c_NullThreadId, atomics::memory_order_relaxed ); free_.store( false, atomics::memory_order_relaxed ); }', count=1,
             why='the three default member initialisers as ctor-body stores')]),
    fs('ctor', r'CDS_EXPORT_API smr::smr\( size_t \w+ \)'),
    fs('dtor', r'CDS_EXPORT_API smr::~smr\(\)'),
    fs('alloc_thread_data', r'CDS_EXPORT_API smr::thread_record\* smr::alloc_thread_data\(\)'),
    fs('free_thread_data', r'CDS_EXPORT_API void smr::free_thread_data\('),
    # the whole anonymous namespace in front of scan() (hp_vector, copy_hazards, retire_data and whatever helper they use) as ONE fragment
    fs('scan_helpers', r'namespace \{\s*typedef std::vector<void\*, allocator<void\*>> hp_vector;', body_only=True, rewrites=[
        dict(lit='auto hp_begin = plist.begin();', to='void* const* hp_begin = plist.begin();', count='0+', why=AUTO),
        dict(lit='auto hp_end = plist.end();', to='void* const* hp_end = plist.end();', count='0+', why=AUTO),
        dict(re=r'void\s*\*\s*const\s*\*', to='vx_cvoidp*', count='0+', why='the front end misparses the declarator `void* const*` (pointer to const pointer) as a constant pointer and then rejects `p += n`; same type through a typedef')]),
    fs('scan', r'CDS_EXPORT_API void smr::scan\('),
    fs('help_scan', r'CDS_EXPORT_API void smr::help_scan\('),
    fs('detach_all_thread', r'CDS_EXPORT_API void smr::detach_all_thread\(\)'),
    dict(kind='fragment', path=H, name='retire', anchor=r'static void retire\( T \* \w+, void \(\* \w+\)\(void \*\)\)', body_only=True, rewrites=[
        dict(lit='rec->retired_.push( dhp::retired_ptr( p, func ))', to='rec->retired_.push( vx_rp )', count=1, why='temporary bound to a const reference inside a condition -> named object declared by the shell'),
        dict(lit='dhp::smr::tls()', to='vx_tls()', count=1, why='singleton/TLS accessors -> the harness world'),
        dict(lit='dhp::smr::instance()', to='vx_instance()', count=1, why='same')]),
]

RS = ['src/hp.cpp', 'src/init.cpp', 'src/thread_data.cpp', 'src/hp_thread_local.cpp', 'src/dhp.cpp', 'src/topology_linux.cpp', 'src/urcu_gp.cpp', 'src/urcu_sh.cpp']


def grp(name, harness, props, expect, fns, tier='quick', unwind={'quick': 6, 'thorough': 9}, timeout={'quick': 1200, 'thorough': 7200}, two=False):
    if two:
        unwind = {'quick': 9, 'thorough': 13}
    return dict(replay=dict(driver='replay.cpp', case=name, vars=[], repo_sources=RS), defines=(['VX_TWO_RECS'] if two else []), name=name, harness=harness, enforce=[], dfcc=False, functions=fns, expect=expect, props=props, timeout=timeout, tier=tier, unwind=unwind,
                defines_tier={'quick': ['VX_NREC=2', 'VX_H=1', 'VX_GCAP=2', 'VX_RCAP=2', 'VX_NO_HELP_SCAN'], 'thorough': ['VX_NREC=2', 'VX_H=1', 'VX_GCAP=2', 'VX_RCAP=2', 'VX_NO_HELP_SCAN']},     # thorough = quick bounds: larger worlds and the real help_scan inside detach do not finish in the solver; thorough adds groups, not size
                bounded='2 thread records x (1 initial guard + extension blocks of 2) x <= 3 retired pointers in blocks of 2 (both tiers); PARAMETER ABSTRACTION: extension block 16 -> 2, retired block 256 -> 2')


SCAN = ['dhp::smr::scan', 'copy_hazards', 'retire_data', 'retired_array::push/repush/extend', 'thread_hp_storage::alloc/extend/init', 'hp_allocator::alloc', 'retired_allocator::alloc', 'guard_block::first', 'retired_block::first/last']
GROUPS = ([
    grp('scan_c02', 'h_scan_c02', ['C02'], [r'C02\.no_free_while_guarded', r'C02\.kept_once'], SCAN),
    grp('scan_c03_free', 'h_scan_c03_free', ['C03'], [r'C03\.freed_when_unprotected', r'C03\.at_most_once', r'C03\.no_invention'], SCAN, tier='thorough'),
    grp('scan_c03_keep', 'h_scan_c03_keep', ['C03'], [r'C03\.kept_when_protected'], SCAN, tier='thorough'),
    grp('retire', 'h_retire', ['C03', 'C02'], [r'C03\.retire_keeps_room', r'C03\.retire_conserves'], ['cds::gc::DHP::retire(T*, void(*)(void*))'] + SCAN, tier='thorough'),
    # group help_scan (DHP adoption of abandoned records, two records) is NOT run: the solver does not finish within 50 minutes even at the quick bounds;
    # the harness h_help_scan stays in contracts.c. Seed C03c (help_scan: fini -> reset) lives there and is therefore not detected (DESIGN A.4).
]) + [
    dict(grp('retire_data_n%d' % n, 'h_retire_data_wide', ['C02', 'C03'], [r'C02\.no_free_while_guarded', r'C03\.freed_when_unprotected'], ['retire_data (search of the sorted hazard list)', 'retired_array::repush', 'retired_ptr::free'],
             tier=tr, unwind={'quick': 40, 'thorough': 40}), defines=['VX_VEC_MAX=40', 'VX_WIDE_N=36', 'VX_WIDE_FIX=%d' % n],
         bounded='sorted hazard list of length %d with symbolic contents (duplicates allowed), one retired pointer equal to any of its entries or to none' % n)
    for n, tr in ((7, 'quick'), (17, 'quick'), (35, 'quick'), (16, 'thorough'), (24, 'thorough'), (33, 'thorough'), (36, 'thorough'))
] + [
    grp('dtor', 'h_dtor', ['C03'], [r'C03\.dtor_disposes_all'], ['dhp::smr::~smr', 'retired_array::fini', 'thread_hp_storage::clear'], two=True),
    grp('detach_reuse', 'h_detach_reuse', ['C03', 'C02'], [r'C03\.detach_conserves', r'C03\.detach_releases_record', r'C03\.reuse'],
        ['dhp::smr::free_thread_data', 'dhp::smr::alloc_thread_data', 'retired_array::init', 'thread_hp_storage::init/clear'] + SCAN),
]

UNIT = dict(
    properties=['C02', 'C03'],
    stage=stage,
    decl_rules=[
        dict(path=H, re=r'atomics::atomic< thread_record\*>\s+thread_list_;', count=1),
        dict(path=H, re=r'size_t const\s+initial_hazard_count_;', count=1),
        dict(path=H, re=r'std::atomic<size_t> last_plist_size_;', count=1),
        dict(path=H, re=r'hp_allocator\s+hp_allocator_;\s*retired_allocator\s+retired_allocator_;', count=1),
    ],
    cxx=['shim.cpp'], c=['contracts.c'],
    cxxflags=['-Dconstexpr=', '-Dnoexcept=', '-Dexplicit=', '-Dprivate=public', '-Dprotected=public'],
    sabotage=[
        dict(name='scan_ignores_extension_blocks', quick=True, props=['C02'], target='scan', lit='copy_hazards( plist, block->first(), defaults::c_extended_guard_block_size );', to=';', count=1,
             groups=['scan_c02'], expect_fail=r'C02\.no_free_while_guarded'),
        dict(name='scan_stops_after_first_extension_block', props=['C02'], target='scan', lit='block = block->next_block_ )', to='block = nullptr )', count=1,
             groups=['scan_c02'], expect_fail=r'C02\.no_free_while_guarded', tier='thorough'),
        dict(name='copy_hazards_drops_last_cell', props=['C02'], target='scan_helpers', lit='for ( guard const* end = arr + size; arr != end; ++arr ) {', to='for ( guard const* end = arr + size - 1; arr != end; ++arr ) {', count=1,
             groups=['scan_c02'], expect_fail=r'C02\.no_free_while_guarded'),
        dict(name='dtor_leaves_retired', quick=True, props=['C03'], target='dtor', lit='p != retired.current_cell_; ++p ) {', to='p != retired.current_cell_ && p + 1 != retired.current_cell_; ++p ) {', count=1, groups=['dtor'], expect_fail=r'C03\.dtor_disposes_all'),
        dict(name='scan_forgets_repush', props=['C03'], target='scan_helpers', lit='stg.repush( p );', to=';', count=1, groups=['scan_c03_keep'], expect_fail=r'C03\.kept_when_protected'),
    ],
    trusted_base=[
        'CBMC 6.11 C++ front end (partial)',
        'SC atomic<T> stub: memory orders and thread_data::sync() fences have no effect',
        'std::sort / std::binary_search replaced by reference implementations in /verif/stubs/algorithm; std::vector replaced by a capacity-checked array (hp_vector)',
        'shell block types: guard_block/retired_block trailing arrays (reinterpret_cast<T*>(this + 1) over one raw allocation) are explicit arrays in separately named objects; first() rewrites pinned with counts',
        'FreeListImpl (free_list_.get/put) replaced by a shell free list (the lock-free free list itself is not under contract)',
        'thread-record list is stable during a pass; the witness record stays attached during the pass',
    ],
    assumptions=[
        'BOUNDED: see groups[].loop_closure; PARAMETER ABSTRACTION: extension guard block 16 -> VX_GCAP=2, retired block 256 -> VX_RCAP=2 (code is generic in both constants)',
        'witness-slot rely: every guard slot except one returns an arbitrary value on every load; one slot (initial array or any extension block) holds the protected pointer for the whole call',
        'sequential consistency; weak-memory effects are invisible',
        'quick tier: help_scan inside free_thread_data/scan paths stubbed out (VX_NO_HELP_SCAN); its own group runs in the thorough tier',
    ],
    dropped=['private/protected -> public', 'noexcept/constexpr/explicit', 'deleted constructors', 'make_retired_ptr (lambda)', 'default member initialisers -> ctor-body stores', 'thread_local TLS pointer -> harness world',
             'raw allocation + placement new of blocks -> shell allocation', 'auto -> explicit types'],
    groups=GROUPS,
)
