// unit dhp_scan — C++ side. Real text: guard_block, thread_hp_storage, retired_block, retired_array, thread_data (fragments of
// cds/gc/dhp.h), hp_common.h / retired_ptr.h (shadow), and from src/dhp.cpp: struct thread_record, defaults, hp_allocator::alloc,
// retired_allocator::alloc, smr ctor/dtor, alloc_thread_data, free_thread_data, copy_hazards, retire_data, scan, help_scan,
// detach_all_thread; DHP::retire body (dhp.h).
// Shell: class smr (member declarations only), FreeListImpl (sequential LIFO = assumed free-list contract), block types with
// explicit trailing arrays, allocator of the anonymous namespace, harness world.
#include <cds/details/defs.h>
extern "C" void* vx_nondet_ptr();
extern "C" int vx_is_slot(const void* addr);
extern "C" uintptr_t vx_slot_value(const void* addr);
template <typename T> static inline T vx_loaded(const T* a, T v) { if (vx_is_slot((const void*)a)) return (T) vx_slot_value((const void*)a); return v; }
#define VX_ATOMIC_LOADED(a, v) vx_loaded(a, v)
#define VX_VECTOR_GROWS
#include <cds/algo/atomic.h>
#include <cds/os/thread.h>
#include <stdexcept>
#include <algorithm>
#include <vector>
#include <utility>
#include <cds/user_setup/cache_line.h>
#include <cds/details/throw_exception.h>
namespace cds { namespace gc { namespace hp { namespace common { class guard; } } } }
static inline void vx_construct_guards(cds::gc::hp::common::guard* arr, size_t n);
#include <cds/gc/details/hp_common.h>
static inline void vx_construct_guards(cds::gc::hp::common::guard* arr, size_t n) { for (size_t i = 0; i < n; ++i) { arr[i].clear(); arr[i].next_ = nullptr; } }
#ifndef VX_GCAP
#define VX_GCAP 2
#endif
#ifndef VX_RCAP
#define VX_RCAP 2
#endif
// shell: sequential free list (the contract of cds::intrusive::FreeListImpl: get() returns a node that was put() and not yet
// taken, or null; C21 is not decided, assumed here)
namespace cds { namespace intrusive { struct FreeListImpl {
    struct node { node* vx_next; };
    node* head;
    FreeListImpl() : head( nullptr ) {}
    node* get() { node* n = head; if ( n ) head = n->vx_next; return n; }
    void put( node* n ) { n->vx_next = head; head = n; }
}; } }
extern "C" void vx_destroy_record(void* rec, size_t nonempty);
extern "C" void vx_pool_exhausted();
extern "C" void* vx_alloc(size_t);
extern "C" void vx_free(void*);
namespace cds { namespace gc { namespace dhp {
    using namespace cds::gc::hp::common;
    struct guard_block;
    struct retired_block;
    static inline guard* vx_gb_first( guard_block* b );
    static inline retired_ptr* vx_rb_first( retired_block const* b );
#include <guard_block.inc>
    struct vx_gblock { guard_block hdr; guard cells[VX_GCAP]; };
    static inline guard* vx_gb_first( guard_block* b ) { return reinterpret_cast<vx_gblock*>( b )->cells; }
    static inline guard_block* vx_new_guard_block();
    class smr;
    class hp_allocator {
    public:
        static hp_allocator& instance();
        guard_block* alloc();
        void free( guard_block* block ) { free_list_.put( block ); }
        cds::intrusive::FreeListImpl free_list_;
    };
#include <thread_hp_storage.inc>
#include <retired_block.inc>
    struct vx_rblock { retired_block hdr; retired_ptr cells[VX_RCAP]; };
    static inline retired_ptr* vx_rb_first( retired_block const* b ) { return const_cast<vx_rblock*>( reinterpret_cast<vx_rblock const*>( b ))->cells; }
    static inline retired_block* vx_new_retired_block();
    class retired_allocator {
    public:
        static retired_allocator& instance();
        retired_block* alloc();
        void free( retired_block* block ) { block->next_ = nullptr; free_list_.put( block ); }
        cds::intrusive::FreeListImpl free_list_;
    };
#include <retired_array.inc>
#include <thread_data.inc>
    // ---- shell: class smr (member declarations as in dhp.h, tied by declaration rules)
    class smr {
    public:
#include <thread_record.inc>
        static smr& instance() { return *instance_; }
        void scan( thread_data* pRec );
        void help_scan( thread_data* pThis );
        explicit smr( size_t nInitialHazardPtrCount );
        ~smr();
        void detach_all_thread();
        thread_record* create_thread_data();
        static void destroy_thread_data( thread_record* pRec );
        thread_record* alloc_thread_data();
        void free_thread_data( thread_record* pRec, bool callHelpScan );
        static smr* instance_;
        atomics::atomic< thread_record*> thread_list_;
        size_t const initial_hazard_count_;
        hp_allocator hp_allocator_;
        retired_allocator retired_allocator_;
        std::atomic<size_t> last_plist_size_;
    };
    smr* smr::instance_ = nullptr;
    hp_allocator& hp_allocator::instance() { return smr::instance().hp_allocator_; }
    retired_allocator& retired_allocator::instance() { return smr::instance().retired_allocator_; }
    // ---- shell for the anonymous namespace of src/dhp.cpp
    template <typename T> struct allocator { typedef T value_type; };
#include <defaults.inc>
    // block pools (fresh blocks): never the same block twice
    // separate named block objects (not arrays of blocks: keeps every block its own object for the verifier)
    static vx_gblock vx_g0, vx_g1, vx_g2; static unsigned vx_gpool_n;
    static vx_rblock vx_r0, vx_r1, vx_r2, vx_r3; static unsigned vx_rpool_n;
    static inline vx_gblock* vx_gpool_at( unsigned i ) { return i == 0 ? &vx_g0 : i == 1 ? &vx_g1 : &vx_g2; }
    static inline vx_rblock* vx_rpool_at( unsigned i ) { return i == 0 ? &vx_r0 : i == 1 ? &vx_r1 : i == 2 ? &vx_r2 : &vx_r3; }
    static inline guard_block* vx_new_guard_block() { if ( vx_gpool_n >= 3 ) vx_pool_exhausted(); vx_gblock* b = vx_gpool_at( vx_gpool_n++ ); b->hdr.next_block_ = nullptr; vx_construct_guards( b->cells, VX_GCAP ); return &b->hdr; }
    static inline retired_block* vx_new_retired_block() { if ( vx_rpool_n >= 4 ) vx_pool_exhausted(); vx_rblock* b = vx_rpool_at( vx_rpool_n++ ); b->hdr.next_ = nullptr; return &b->hdr; }
    void smr::destroy_thread_data( thread_record* pRec ) { vx_destroy_record( pRec, pRec->retired_.empty() ? 0 : 1 ); }
    static smr::thread_record* vx_fresh_record();
    smr::thread_record* smr::create_thread_data() { return vx_fresh_record(); }
#include <hp_alloc.inc>
#include <retired_alloc.inc>
#include <ctor.inc>
#include <dtor.inc>
#include <alloc_thread_data.inc>
#include <free_thread_data.inc>
    typedef void* const vx_cvoidp;
    namespace vx_scan_helpers      // the anonymous namespace of src/dhp.cpp (unique namespaces are not supported by the front end): body-only fragment under a named one
#include <scan_helpers.inc>
    using namespace vx_scan_helpers;
#include <scan.inc>
#include <help_scan.inc>
#include <detach_all_thread.inc>
}}}
using namespace cds::gc::dhp;
typedef smr::thread_record rec_t;
#ifndef VX_NREC
#define VX_NREC 2
#endif
#ifndef VX_H
#define VX_H 1
#endif
extern "C" void vf_dispose(void* p);
extern "C" int vx_nondet_int();
extern "C" void vx_register_slot(const void* slot_addr);
extern "C" void vx_slot_objects(const void* a, const void* b, const void* c, const void* d);
extern "C" void vx_set_witness_slot(const void* slot_addr);
extern "C" void vx_world_built(void);
extern "C" void vx_pre_retired(void* p);
extern "C" void vx_post_retired(void* p);
struct World { guard g[VX_NREC + 1][VX_H]; };
static World* vx_w; static rec_t* vx_recs[3]; static unsigned vx_fresh_n;
namespace cds { namespace gc { namespace dhp { static smr::thread_record* vx_fresh_record() { return nullptr; } }}}
static rec_t* vx_tls_rec; static smr* vx_smr;
static thread_data* vx_tls() { return vx_tls_rec; }
static smr& vx_instance() { return *vx_smr; }
template <typename T> static void vx_retire( T * p, void (* func)(void *)) { cds::gc::dhp::retired_ptr vx_rp( p, func );
#include <retire.inc>
}
#define BUILD_WORLD \
    World w; vx_w = &w; \
    smr s(VX_H); smr::instance_ = &s; vx_smr = &s; \
    rec_t rec0(w.g[0], VX_H); rec_t rec1(w.g[1 % VX_NREC], VX_H); rec_t rec2(w.g[2 % VX_NREC], VX_H); \
    rec_t* recs[3] = { &rec0, &rec1, &rec2 }; \
    for (unsigned i = 0; i < VX_NREC; ++i) { \
        recs[i]->next_ = (i + 1 < VX_NREC) ? recs[i + 1] : nullptr; \
        recs[i]->thread_id_.store(100 + i, atomics::memory_order_relaxed); \
        recs[i]->hazards_.init(); recs[i]->retired_.init(); \
    } \
    vx_slot_objects(&w, &vx_g0, &vx_g1, &vx_g2); \
    s.thread_list_.store(recs[0], atomics::memory_order_relaxed);
// allocate m guards on record r through the real alloc() (forces extend() past the initial array); returns the last one
static guard* alloc_guards(rec_t* r, unsigned m) { guard* g = nullptr; for (unsigned i = 0; i < m; ++i) g = r->hazards_.alloc(); return g; }
static void fill_retired(rec_t* rec, size_t n) {
    for (size_t j = 0; j < n; ++j) {
        void* p = vx_nondet_ptr(); vx_pre_retired(p);
        cds::gc::dhp::retired_ptr rp(p, vf_dispose);
        if (!rec->retired_.push(rp)) rec->retired_.extend();      // what scan() does when nothing could be freed
    }
}
static void report_retired(rec_t* rec) {
    retired_array& ra = rec->retired_;
    for (retired_block* b = ra.list_head_; b; b = b->next_) {
        retired_ptr* last = (b == ra.current_block_) ? ra.current_cell_ : b->last();
        for (retired_ptr* p = b->first(); p != last; ++p) vx_post_retired(p->m_p);
        if (b == ra.current_block_) break;
    }
}
extern "C" void w_dhp_scan(size_t n, unsigned wrec, unsigned wguards) {
    BUILD_WORLD
    for (unsigned i = 1; i < VX_NREC; ++i) if (i != wrec && vx_nondet_int()) recs[i]->thread_id_.store(0, atomics::memory_order_relaxed);
    guard* wg = alloc_guards(recs[wrec], wguards);        // the witness guard: the wguards-th guard handed out to record wrec
    vx_set_witness_slot(wg);
    fill_retired(recs[0], n);
    vx_world_built();
    s.scan(recs[0]);
    report_retired(recs[0]);
    for (unsigned i = 0; i < VX_NREC; ++i) { recs[i]->retired_.current_block_ = recs[i]->retired_.list_head_; if (recs[i]->retired_.list_head_) recs[i]->retired_.current_cell_ = recs[i]->retired_.list_head_->first(); }
    s.thread_list_.store(nullptr, atomics::memory_order_relaxed);
}

// ---- retire_data() alone, over a long sorted hazard list (the search inside it is exercised beyond the sizes a bounded scan reaches)
extern "C" void* vx_sorted_ptr(size_t i);
extern "C" size_t w_dhp_retire_data_wide(size_t n, void* p) {
    BUILD_WORLD
    hp_vector plist; plist.reserve( n );
    for (size_t i = 0; i < n; ++i) plist.push_back( vx_sorted_ptr( i ));
    retired_array& ra = recs[0]->retired_;
    vx_pre_retired(p);
    cds::gc::dhp::retired_ptr rp(p, vf_dispose);
    ra.push(rp);
    vx_world_built();
    // what scan() does around the call
    ra.current_block_ = ra.list_head_; ra.current_cell_ = ra.current_block_->first();
    size_t freed = retire_data( plist, ra, ra.list_head_, 1 );
    report_retired(recs[0]);
    ra.current_block_ = ra.list_head_; ra.current_cell_ = ra.list_head_->first();
    s.thread_list_.store(nullptr, atomics::memory_order_relaxed);
    return freed;
}

// ---- retire(): body of cds::gc::DHP::retire( T*, void(*)(void*))
extern "C" void w_dhp_retire(size_t n, unsigned wrec, unsigned wguards) {
    BUILD_WORLD
    vx_tls_rec = recs[0];
    guard* wg = alloc_guards(recs[wrec], wguards); vx_set_witness_slot(wg);
    fill_retired(recs[0], n);
    void* p = vx_nondet_ptr(); vx_pre_retired(p);
    vx_world_built();
    vx_retire(p, vf_dispose);
    __CPROVER_assert(recs[0]->retired_.current_cell_ != recs[0]->retired_.current_block_->last(), "C03.retire_keeps_room: after retire() the next retire() writes inside a block");
    report_retired(recs[0]);
    s.thread_list_.store(nullptr, atomics::memory_order_relaxed);
}
// ---- help_scan by record 0; record 1 abandoned with retired data / free / owned
extern "C" void w_dhp_help_scan(size_t n0, size_t n1) {
    BUILD_WORLD
    int st = vx_nondet_int(); int abandoned = 0; size_t m1 = n1;
    if (st == 0) { recs[1]->thread_id_.store(0, atomics::memory_order_relaxed); abandoned = 1; }
    else if (st == 1) { recs[1]->thread_id_.store(0, atomics::memory_order_relaxed); recs[1]->retired_.fini(); recs[1]->free_.store(true, atomics::memory_order_relaxed); m1 = 0; }
    fill_retired(recs[0], n0);
    if (st != 1) fill_retired(recs[1], m1);
    vx_world_built();
    s.help_scan(recs[0]);
    if (abandoned) {
        __CPROVER_assert(recs[1]->retired_.empty(), "C03.help_scan_empties_source: an adopted record's retired storage is empty afterwards");
        __CPROVER_assert(recs[1]->free_.load(atomics::memory_order_relaxed), "C03.help_scan_marks_free: an adopted record is marked free");
    }
    report_retired(recs[0]); if (!abandoned && st != 1) report_retired(recs[1]);
    s.thread_list_.store(nullptr, atomics::memory_order_relaxed);
}
// ---- ~smr over records with arbitrary retired contents
extern "C" void w_dhp_dtor(size_t n0, size_t n1) {
    World w; vx_w = &w;
    smr s(VX_H); smr::instance_ = &s; vx_smr = &s;
    rec_t rec0(w.g[0], VX_H); rec_t rec1(w.g[1 % VX_NREC], VX_H);
    rec_t* recs[2] = { &rec0, &rec1 };
    for (unsigned i = 0; i < 2; ++i) { recs[i]->next_ = (i == 0) ? recs[1] : nullptr; recs[i]->thread_id_.store(0, atomics::memory_order_relaxed); recs[i]->hazards_.init(); recs[i]->retired_.init(); }
    fill_retired(recs[0], n0); fill_retired(recs[1], n1);
    s.thread_list_.store(recs[0], atomics::memory_order_relaxed);
    vx_slot_objects(&w, &vx_g0, &vx_g1, &vx_g2); vx_world_built();
    s.~smr();      // the destructor under check (it runs once more at scope exit on the then empty thread list)
}
// ---- free_thread_data (thread detach) of record 0, then re-use of the record by a new thread (alloc_thread_data)
extern "C" void w_dhp_detach_reuse(size_t n0, unsigned wguards, int call_help_scan, int reuse) {
    BUILD_WORLD
    guard* wg = alloc_guards(recs[1], wguards); vx_set_witness_slot(wg);       // the witness guard belongs to another thread
    fill_retired(recs[0], n0);
    vx_world_built();
    s.free_thread_data(recs[0], call_help_scan != 0);
    __CPROVER_assert(recs[0]->thread_id_.load(atomics::memory_order_relaxed) == 0, "C03.detach_releases_record: the record is released for adoption / reuse");
    if (reuse) {
        rec_t* r = s.alloc_thread_data();                  // a new thread attaches: the free record is reused
        __CPROVER_assert(r == recs[0], "C03.reuse: a detached record is reused by the next attaching thread");
    }
    if (!recs[0]->retired_.empty()) report_retired(recs[0]);
    s.thread_list_.store(nullptr, atomics::memory_order_relaxed);
}
