/* unit locks — property C22: rely/guarantee obligations with ghost ownership.
   Ghost state says who holds the lock; the environment step changes the shared words only in ways the OTHER threads'
   atomic actions can (rely); every one of MY writes is checked against the guarantee (I take only a free lock, I release
   only my own). Mutual exclusion is the invariant "at most one holder", preserved by both sides.
   Termination of spin loops is not claimed: a fairness budget makes the environment release the lock after at most
   VX_BUDGET interfering steps, so the loops are closed by unwinding VX_BUDGET+3 (bounded stand-in for the spin count only;
   the loops are memoryless: every iteration starts from a freshly interfered state). */
#include <vx_c.h>
#ifndef VX_BUDGET
#define VX_BUDGET 6
#endif
#define MY_TID 7
int vx_nondet_int(void) { int v; return v; }
int vx_budget;               /* interfering steps the environment may still take while holding the lock */
static vx_bool nondet_bool(void) { int v; return (v & 1) != 0; }
int vx_cas_weak_fails(void) { if (vx_budget > 0 && nondet_bool()) { vx_budget--; return 1; } return 0; }   /* spurious CAS failures share the fairness budget */
static uint32_t nondet_u32(void) { uint32_t v; return v; }
static size_t nondet_size(void) { size_t v; return v; }

int vx_unit;                 /* 1 spin_lock, 2 reentrant_spin_lock */
extern int vx_budget;               /* interfering steps the environment may still take while holding the lock */
/* ---- spin_lock ghost */
vx_bool* sp_word; int sp_me, sp_other;
/* ---- reentrant ghost */
uint32_t* rs_word; size_t* rs_owner; uint32_t rs_depth; int rs_other;

void* w_spin_word(void); void* w_rspin_word(void); void* w_rspin_owner(void);
extern const void* im_addr[2]; extern int im_bal[2]; static void la_event(const void* lk, int op);
extern uint32_t* pm_ref; static void pm_env(void); static void pm_after(uint64_t o, uint64_t n);

void vx_env(const void* addr) {
    if (vx_unit == 3) { if (addr == (const void*)pm_ref) pm_env(); return; }
    if (vx_unit == 1) {
        if (sp_me) return;                                   /* rely: nobody releases or takes a lock I hold */
        vx_bool other = nondet_bool();
        if (other) { if (vx_budget > 0) vx_budget--; else other = 0; }
        sp_other = other; *sp_word = other;                  /* others acquire / release among themselves */
    } else if (vx_unit == 2) {
        if (rs_depth > 0) return;
        vx_bool other = nondet_bool();
        if (other) { if (vx_budget > 0) vx_budget--; else other = 0; }
        rs_other = other;
        uint32_t d = nondet_u32(); __CPROVER_assume(d >= 1);
        *rs_word = other ? d : 0;
        size_t o = nondet_size(); __CPROVER_assume(o != MY_TID);   /* rely: only I ever write my id into the owner field */
        if (!other) {}                                             /* unlocked: owner is null "usually" — any id but mine */
        *rs_owner = o;
    }
}
void vx_after(const void* addr, uint64_t o, uint64_t n) {
    if (vx_unit == 3) { if (addr == (const void*)pm_ref) pm_after(o, n); return; }
    if (vx_unit == 1 && addr == (const void*)sp_word) {
        if (!o && n) { __CPROVER_assert(!sp_other, "C22.guarantee spin_lock: acquires only a free lock"); sp_me = 1; }
        else if (o && !n) { __CPROVER_assert(sp_me, "C22.guarantee spin_lock: releases only a lock it holds"); sp_me = 0; }
    } else if (vx_unit == 2) {
        if (addr == (const void*)rs_word) {
            if (o == 0 && n == 1) { __CPROVER_assert(!rs_other && rs_depth == 0, "C22.guarantee reentrant: first acquisition only of a free lock"); rs_depth = 1; }
            else if (n == o + 1) { __CPROVER_assert(rs_depth >= 1 && o == rs_depth && *rs_owner == MY_TID, "C22.guarantee reentrant: re-enters only a lock it owns"); rs_depth++; }
            else if (n + 1 == o && n >= 1) { __CPROVER_assert(rs_depth >= 2 && o == rs_depth, "C22.guarantee reentrant: inner unlock only by the owner"); rs_depth--; }
            else if (n == 0) { __CPROVER_assert(rs_depth == 1 && o == 1, "C22.guarantee reentrant: released only by its owner's last unlock"); rs_depth = 0; }
            else __CPROVER_assert(0, "C22.guarantee reentrant: unexpected write to the lock word");
        } else if (addr == (const void*)rs_owner) {
            __CPROVER_assert(rs_depth >= 1, "C22.guarantee reentrant: owner field written only while holding the lock");
        }
    }
}

/* ================= spin_lock ================= */
vx_bool w_spin_try_lock(void); vx_bool w_spin_try_lock_n(unsigned); void w_spin_lock(void); void w_spin_unlock(void); vx_bool w_spin_is_locked(void);
static void spin_setup(int me) {
    vx_unit = 1; sp_word = w_spin_word();
    int b; __CPROVER_assume(b >= 0 && b <= VX_BUDGET); vx_budget = b;
    sp_me = me; sp_other = me ? 0 : nondet_bool(); *sp_word = sp_me || sp_other;       /* invariant: word set <=> someone holds */
}
#define SPIN_INV (*sp_word == (sp_me || sp_other) && !(sp_me && sp_other))
void h_spin_try_lock(void) {
    spin_setup(0);
    vx_bool r = w_spin_try_lock();
    __CPROVER_assert(r == sp_me, "C22.spin_lock try_lock: returns true iff it made the caller the holder");
    __CPROVER_assert(SPIN_INV, "C22.spin_lock invariant: lock word set iff exactly one thread holds the lock");
    VX_REACH_GUARD();
}
void h_spin_try_lock_n(void) {
    spin_setup(0); unsigned n; __CPROVER_assume(n <= 3);
    vx_bool r = w_spin_try_lock_n(n);
    __CPROVER_assert(r == sp_me && SPIN_INV, "C22.spin_lock try_lock(n): returns true iff it made the caller the holder");
    VX_REACH_GUARD();
}
void h_spin_lock(void) {
    spin_setup(0);
    w_spin_lock();
    __CPROVER_assert(sp_me && SPIN_INV, "C22.spin_lock lock: on return the caller is the only holder");
    VX_REACH_GUARD();
}
void h_spin_unlock(void) {
    spin_setup(1);
    w_spin_unlock();
    __CPROVER_assert(!sp_me, "C22.spin_lock unlock: the caller no longer holds the lock");
    vx_env(sp_word);
    __CPROVER_assert(SPIN_INV, "C22.spin_lock invariant after unlock");
    VX_REACH_GUARD();
}
void h_spin_held_is_stable(void) {       /* while I hold the lock nobody else gets in: is_locked stays true, try_lock by me would deadlock/false */
    spin_setup(1);
    vx_bool l = w_spin_is_locked();
    __CPROVER_assert(l && sp_me && !sp_other, "C22.spin_lock: a held lock stays held under interference");
    VX_REACH_GUARD();
}

/* ================= reentrant_spin_lock ================= */
vx_bool w_rspin_try_lock(void); vx_bool w_rspin_try_lock_n(unsigned); void w_rspin_lock(void); void w_rspin_unlock(void); vx_bool w_rspin_is_locked(void);
static uint32_t rs_d0;
static void rspin_setup(int need_held) {
    vx_unit = 2; rs_word = w_rspin_word(); rs_owner = w_rspin_owner();
    int b; __CPROVER_assume(b >= 0 && b <= VX_BUDGET); vx_budget = b;
    uint32_t d = nondet_u32(); __CPROVER_assume(d < 1000000u && (!need_held || d >= 1));
    rs_depth = d; rs_d0 = d;
    if (d > 0) { rs_other = 0; *rs_word = d; *rs_owner = MY_TID; }
    else { rs_other = nondet_bool(); uint32_t od = nondet_u32(); __CPROVER_assume(od >= 1); *rs_word = rs_other ? od : 0; size_t o = nondet_size(); __CPROVER_assume(o != MY_TID); *rs_owner = o; }
}
#define RSPIN_INV ((rs_depth > 0) ? (*rs_word == rs_depth && *rs_owner == MY_TID && !rs_other) : ((*rs_word != 0) == (rs_other != 0) && *rs_owner != MY_TID))
void h_rspin_lock(void) {
    rspin_setup(0);
    w_rspin_lock();
    __CPROVER_assert(rs_depth == rs_d0 + 1 && RSPIN_INV, "C22.reentrant lock: depth + 1, caller is the owner, nobody else holds");
    VX_REACH_GUARD();
}
void h_rspin_try_lock(void) {
    rspin_setup(0);
    vx_bool r = w_rspin_try_lock();
    __CPROVER_assert(r ? (rs_depth == rs_d0 + 1) : (rs_depth == rs_d0 && rs_d0 == 0), "C22.reentrant try_lock: true iff acquired (owner always succeeds)");
    __CPROVER_assert(RSPIN_INV, "C22.reentrant invariant after try_lock");
    VX_REACH_GUARD();
}
void h_rspin_try_lock_n(void) {
    rspin_setup(0); unsigned n; __CPROVER_assume(n <= 3);
    vx_bool r = w_rspin_try_lock_n(n);
    __CPROVER_assert(r ? (rs_depth == rs_d0 + 1) : (rs_depth == rs_d0 && rs_d0 == 0), "C22.reentrant try_lock(n): true iff acquired");
    __CPROVER_assert(RSPIN_INV, "C22.reentrant invariant after try_lock(n)");
    VX_REACH_GUARD();
}
void h_rspin_unlock(void) {
    rspin_setup(1);
    w_rspin_unlock();
    __CPROVER_assert(rs_depth == rs_d0 - 1, "C22.reentrant unlock: depth - 1");
    __CPROVER_assert((rs_d0 > 1) ? (RSPIN_INV) : (*rs_word == 0 && *rs_owner != MY_TID), "C22.reentrant unlock: released only by the owner's last unlock, owner field cleared");
    VX_REACH_GUARD();
}
void h_rspin_is_locked(void) {
    rspin_setup(0);
    vx_bool l = w_rspin_is_locked();
    __CPROVER_assert((rs_d0 > 0) ? !l : 1, "C22.reentrant is_locked: never reports 'locked' to the owner");
    VX_REACH_GUARD();
}

/* ================= pool_monitor (unit 3) =================
   Shared: m_RefSpin = 2 * (number of threads holding or awaiting the node) + spin bit; m_pLock (plain field, accessed
   only under the spin bit). Ghost: who holds the spin bit, my reference (0/1), the others' references, the lock object
   currently assigned to the node, the lock object I took my reference on. */
uint32_t* pm_ref; void** pm_plock;
int pm_spin;            /* 0 free, 1 ME, 2 OTHER */
int pm_refs_me, pm_refs_other;
void* pm_assigned;      /* lock object assigned to the node (NULL: none) — meaningful while the spin bit is not held by another thread */
void* pm_mylock;        /* the lock object my reference is on */
void* pm_to_free;       /* detached from the node by my unlock(), to be given back to the pool */
int pm_locked_calls, pm_unlocked_calls, pm_alloc_calls, pm_dealloc_calls;
char pm_objs[4];        /* arena of pool lock objects (identity only) */
void* w_pm_refspin(void); void** w_pm_plock(void); void w_pm_lock(void); void w_pm_unlock(void);

static void pm_env(void) {
    if (pm_spin == 1) return;                 /* rely: while I hold the spin bit nobody else writes m_RefSpin / m_pLock */
    int ro = vx_nondet_int(); __CPROVER_assume(ro >= 0 && ro <= 3);
    vx_bool other_spin = nondet_bool();
    /* fairness budget: once it is used up the others make no further change (a thread inside its spin section finishes it) */
    if (vx_budget > 0) vx_budget--; else { if (pm_spin == 0) return; ro = pm_refs_other; other_spin = 0; }
    pm_refs_other = ro; pm_spin = other_spin ? 2 : 0;
    *pm_ref = 2u * (uint32_t)(pm_refs_me + pm_refs_other) + (other_spin ? 1u : 0u);
    if (pm_refs_me > 0) { /* my reference keeps the node's lock object alive and in place */ }
    else if (other_spin) { unsigned k = (unsigned)vx_nondet_int() & 3; pm_assigned = k ? (void*)&pm_objs[k] : NULL; *pm_plock = pm_assigned; }   /* in transition: anything */
    else if (ro > 0) { unsigned k = ((unsigned)vx_nondet_int() & 1) + 1; pm_assigned = &pm_objs[k]; *pm_plock = pm_assigned; }
    else { pm_assigned = NULL; *pm_plock = NULL; }
}
#define PM_INV (*pm_ref == 2u * (uint32_t)(pm_refs_me + pm_refs_other) + (pm_spin != 0 ? 1u : 0u) \
    && (pm_spin != 0 || ((*pm_plock != NULL) == (pm_refs_me + pm_refs_other > 0) && *pm_plock == pm_assigned)) \
    && (pm_refs_me == 0 || (*pm_plock == pm_mylock && pm_mylock != NULL)))
static void pm_after(uint64_t o, uint64_t n) {
    if ((o & 1) == 0 && (n & 1) == 1) {              /* I take the spin bit (CAS) */
        __CPROVER_assert(pm_spin == 0, "C22.guarantee pool_monitor: takes the node spin bit only when it is free");
        pm_spin = 1;
        if (n == o + 3) { __CPROVER_assert(pm_refs_me == 0, "C22.pool_monitor: one reference per lock()"); pm_refs_me = 1; }       /* lock(): + one reference */
        else __CPROVER_assert(n == o + 1 && pm_refs_me == 1, "C22.guarantee pool_monitor: unlock() takes the spin bit without changing the reference count");
    } else if ((o & 1) == 1 && (n & 1) == 0) {       /* I release the spin bit (store) */
        __CPROVER_assert(pm_spin == 1, "C22.guarantee pool_monitor: releases the spin bit only if it holds it");
        if (n + 1 == o) {                                                   /* end of lock() */
            __CPROVER_assert(*pm_plock != NULL, "C22.pool_monitor: a lock object is assigned to the node before the spin bit is released");
            pm_assigned = *pm_plock; pm_mylock = *pm_plock;
        } else {                                                            /* end of unlock(): - my reference */
            __CPROVER_assert(n + 3 == o && pm_refs_me == 1, "C22.guarantee pool_monitor: unlock() drops exactly the caller's reference");
            pm_refs_me = 0;
            if (pm_refs_other == 0) {
                __CPROVER_assert(*pm_plock == NULL, "C22.pool_monitor: the node's lock is detached when the last reference goes");
                pm_to_free = pm_assigned; pm_assigned = NULL;
            } else
                __CPROVER_assert(*pm_plock == pm_assigned && pm_assigned != NULL, "C22.pool_monitor: the node's lock stays assigned while another thread holds or awaits it");
        }
        pm_spin = 0;
        __CPROVER_assert(n == 2u * (uint32_t)(pm_refs_me + pm_refs_other), "C22.pool_monitor: reference count matches the threads holding or awaiting the node");
    } else
        __CPROVER_assert(0, "C22.guarantee pool_monitor: unexpected write to m_RefSpin");
}
void* vx_pool_allocate(void) {
    pm_alloc_calls++;
    __CPROVER_assert(pm_spin == 1 && pm_assigned == NULL && pm_refs_other == 0, "C22.pool_monitor: allocates a lock only under the spin bit, for a node that has none");
    pm_assigned = &pm_objs[3];           /* pool contract (C24): an object not handed out to anyone else */
    return pm_assigned;
}
void vx_pool_deallocate(void* p) {
    pm_dealloc_calls++;
    __CPROVER_assert(p != NULL && p == pm_to_free, "C22.pool_monitor: returns to the pool exactly the lock detached from the node when no thread held or awaited it");
    pm_to_free = NULL;
}
void vx_glock(const void* lk, int op) {
    if (vx_unit == 3) {
        if (op == 1) { pm_locked_calls++; __CPROVER_assert(pm_refs_me == 1 && lk == pm_mylock && pm_spin != 1, "C22.pool_monitor: lock() locks the node's assigned lock object, outside the spin bit, holding a reference"); }
        else if (op == 2) { pm_unlocked_calls++; __CPROVER_assert(pm_refs_me == 1 && lk == pm_mylock, "C22.pool_monitor: unlock() unlocks the lock object the caller locked"); }
    } else if (vx_unit == 4) {
        for (int i = 0; i < 2; ++i) if (lk == im_addr[i]) im_bal[i] += (op == 2) ? -1 : 1;
    } else if (vx_unit == 5) la_event(lk, op);
}
static void pm_setup(int refs_me) {
    vx_unit = 3; pm_ref = w_pm_refspin(); pm_plock = w_pm_plock();
    int b; __CPROVER_assume(b >= 0 && b <= VX_BUDGET); vx_budget = b;
    pm_refs_me = refs_me; pm_spin = 0; pm_refs_other = 0; pm_assigned = NULL; pm_mylock = NULL; *pm_plock = NULL; *pm_ref = 0;
    if (refs_me) { unsigned k = ((unsigned)vx_nondet_int() & 1) + 1; pm_mylock = &pm_objs[k]; pm_assigned = pm_mylock; *pm_plock = pm_mylock; *pm_ref = 2; }
    pm_env();                                 /* any state the others can have produced */
    __CPROVER_assume(pm_spin == 0 || 1);
}
void h_pm_lock(void) {
    pm_setup(0);
    __CPROVER_assert(PM_INV, "C22.pool_monitor invariant (setup)");
    w_pm_lock();
    __CPROVER_assert(pm_refs_me == 1 && pm_locked_calls == 1 && pm_unlocked_calls == 0 && pm_dealloc_calls == 0, "C22.pool_monitor lock: one reference taken, the node's lock locked exactly once");
    __CPROVER_assert(pm_spin != 1, "C22.pool_monitor lock: spin bit released on return");
    pm_env();
    __CPROVER_assert(PM_INV, "C22.pool_monitor invariant after lock (stable under interference)");
    VX_REACH_GUARD();
}
void h_pm_unlock(void) {
    pm_setup(1);
    __CPROVER_assert(PM_INV, "C22.pool_monitor invariant (setup)");
    int others_before;
    w_pm_unlock();
    __CPROVER_assert(pm_refs_me == 0 && pm_unlocked_calls == 1 && pm_locked_calls == 0 && pm_alloc_calls == 0, "C22.pool_monitor unlock: the caller's lock unlocked exactly once, reference dropped");
    __CPROVER_assert(pm_spin != 1 && pm_to_free == NULL, "C22.pool_monitor unlock: spin bit released, a detached lock was given back to the pool");
    pm_env();
    __CPROVER_assert(PM_INV, "C22.pool_monitor invariant after unlock (stable under interference)");
    VX_REACH_GUARD();
}

/* ================= injecting_monitor (unit 4): lock(p)/unlock(p) act on exactly the node's own lock ================= */
const void* im_addr[2]; int im_bal[2];
void* w_im_lock_addr(unsigned); void w_im_lock(unsigned); void w_im_unlock(unsigned);
void h_im(void) {
    vx_unit = 4; im_addr[0] = w_im_lock_addr(0); im_addr[1] = w_im_lock_addr(1);
    unsigned i; __CPROVER_assume(i < 2);
    w_im_lock(i);
    __CPROVER_assert(im_bal[i] == 1 && im_bal[1 - i] == 0, "C22.injecting_monitor lock: locks the node's own lock and no other");
    w_im_unlock(i);
    __CPROVER_assert(im_bal[i] == 0 && im_bal[1 - i] == 0, "C22.injecting_monitor unlock: unlocks the node's own lock and no other");
    VX_REACH_GUARD();
}

/* ================= lock_array (unit 5) ================= */
#define LA_MAX 8
const void* la_addr[LA_MAX]; int la_bal[LA_MAX]; unsigned la_n;
void vx_la_register(const void* lk, unsigned i) {
    if (i < LA_MAX) {
        for (unsigned j = 0; j < LA_MAX; ++j) if (j < i) __CPROVER_assert(la_addr[j] != lk, "C22.lock_array: distinct cells are distinct locks");
        la_addr[i] = lk; if (la_n <= i) la_n = i + 1;
    }
}
static void la_event(const void* lk, int op) {
    int hit = 0;
    for (unsigned j = 0; j < LA_MAX; ++j) if (j < la_n && la_addr[j] == lk) { la_bal[j] += (op == 2) ? -1 : 1; hit = 1; }
    __CPROVER_assert(hit, "C22.lock_array: only locks of the array are touched (index in bounds)");
}
size_t w_la_mod_lock(size_t, size_t); size_t w_la_mod_lock_unlock(size_t, size_t); size_t w_la_pow2_lock(size_t, size_t);
void w_la_lock_all(size_t); void w_la_lock_unlock_all(size_t); size_t w_la_try_lock(size_t, size_t);
#ifndef VX_LA_CAP
#define VX_LA_CAP 4
#endif
static int la_only(size_t cell, int v) { for (unsigned j = 0; j < LA_MAX; ++j) if (j < la_n && la_bal[j] != ((j == cell) ? v : 0)) return 0; return 1; }
void h_la_mod_lock(void) {
    vx_unit = 5; size_t cap, hint; __CPROVER_assume(cap >= 1 && cap <= VX_LA_CAP);
    size_t c = w_la_mod_lock(cap, hint);
    __CPROVER_assert(c < cap && c == hint % cap && la_only(c, 1), "C22.lock_array lock: locks exactly the selected cell (mod policy), returns its index");
    VX_REACH_GUARD();
}
void h_la_mod_lock_unlock(void) {
    vx_unit = 5; size_t cap, hint; __CPROVER_assume(cap >= 1 && cap <= VX_LA_CAP);
    size_t c = w_la_mod_lock_unlock(cap, hint);
    __CPROVER_assert(c < cap && la_only(c, 0), "C22.lock_array unlock(cell): unlocks exactly the cell that lock() returned");
    VX_REACH_GUARD();
}
void h_la_pow2_lock(void) {
    vx_unit = 5; size_t cap, hint; __CPROVER_assume(cap == 1 || cap == 2 || cap == 4 || cap == 8);
    size_t c = w_la_pow2_lock(cap, hint);
    __CPROVER_assert(c < cap && c == (hint & (cap - 1)) && la_only(c, 1), "C22.lock_array lock: locks exactly the selected cell (pow2 policy)");
    VX_REACH_GUARD();
}
void h_la_lock_all(void) {
    vx_unit = 5; size_t cap; __CPROVER_assume(cap >= 1 && cap <= VX_LA_CAP);
    w_la_lock_all(cap);
    for (unsigned j = 0; j < LA_MAX; ++j) if (j < cap) __CPROVER_assert(la_bal[j] == 1, "C22.lock_array lock_all: every lock of the array locked exactly once");
    VX_REACH_GUARD();
}
void h_la_lock_unlock_all(void) {
    vx_unit = 5; size_t cap; __CPROVER_assume(cap >= 1 && cap <= VX_LA_CAP);
    w_la_lock_unlock_all(cap);
    for (unsigned j = 0; j < LA_MAX; ++j) if (j < cap) __CPROVER_assert(la_bal[j] == 0, "C22.lock_array unlock_all: balanced with lock_all");
    VX_REACH_GUARD();
}
void h_la_try_lock(void) {
    vx_unit = 5; size_t cap, hint; __CPROVER_assume(cap >= 1 && cap <= VX_LA_CAP);
    size_t c = w_la_try_lock(cap, hint);
    __CPROVER_assert((c == (size_t)-1) ? la_only(LA_MAX, 0) : (c == hint % cap && la_only(c, 1)), "C22.lock_array try_lock: locks the selected cell or nothing");
    VX_REACH_GUARD();
}
