// unit locks — native replay against /repo's cds/sync/spinlock.h (header only).
// usage: replay <case>. No verifier input is needed: the scenarios are searched natively around the obligation's shape —
// every nesting of the three entry points lock() / try_lock() / try_lock(n) of reentrant_spin_lock up to depth 3, a second
// thread probing after every unlock; spin_lock lock/try_lock/unlock. Exit 1 + "REPRODUCED" when the real lock misbehaves.
#include <cstdio>
#include <string>
#include <thread>
#include <cds/sync/spinlock.h>
typedef cds::sync::reentrant_spin_lock<uint32_t, cds::backoff::LockDefault> rspin;
typedef cds::sync::spin_lock<cds::backoff::LockDefault> spin;
static const char* EP[3] = { "lock()", "try_lock()", "try_lock(4)" };
template <typename L> static bool other_can_take(L& l) { bool got = false; std::thread t([&]{ got = l.try_lock(); if (got) l.unlock(); }); t.join(); return got; }
static bool enter(rspin& l, int how) { if (how == 0) { l.lock(); return true; } if (how == 1) return l.try_lock(); return l.try_lock(4); }
int main(int argc, char** argv) {
    if (argc < 2) return 2;
    std::string c = argv[1];
    // reentrant lock: every sequence of entry points of length 1..3, then unlock step by step
    for (int depth = 1; depth <= 3; ++depth) {
        int combos = 1; for (int i = 0; i < depth; ++i) combos *= 3;
        for (int code = 0; code < combos; ++code) {
            rspin l; int how[3]; int x = code; for (int i = 0; i < depth; ++i) { how[i] = x % 3; x /= 3; }
            std::string seq;
            for (int i = 0; i < depth; ++i) {
                seq += std::string(i ? "; " : "") + EP[how[i]];
                if (!enter(l, how[i])) { std::printf("REPRODUCED %s: reentrant_spin_lock: %s by the owner failed\n", c.c_str(), seq.c_str()); return 1; }
                if (other_can_take(l)) { std::printf("REPRODUCED %s: reentrant_spin_lock: after %s another thread acquired the lock\n", c.c_str(), seq.c_str()); return 1; }
            }
            for (int i = depth; i > 0; --i) {
                l.unlock(); seq += "; unlock()";
                bool got = other_can_take(l);
                if (i > 1 && got) { std::printf("REPRODUCED %s: reentrant_spin_lock: after %s (owner still inside %d level(s)) another thread acquired the lock\n", c.c_str(), seq.c_str(), i - 1); return 1; }
                if (i == 1 && !got) { std::printf("REPRODUCED %s: reentrant_spin_lock: after %s (last unlock) the lock is still taken\n", c.c_str(), seq.c_str()); return 1; }
            }
            if (l.is_locked()) { std::printf("REPRODUCED %s: reentrant_spin_lock: is_locked() after the last unlock\n", c.c_str()); return 1; }
        }
    }
    // plain spin lock
    {
        spin l;
        if (!l.try_lock() || l.try_lock() || l.try_lock(3) || !l.is_locked() || other_can_take(l)) { std::printf("REPRODUCED %s: spin_lock: a held lock was acquired again\n", c.c_str()); return 1; }
        l.unlock();
        if (l.is_locked() || !other_can_take(l)) { std::printf("REPRODUCED %s: spin_lock: unlock() did not release\n", c.c_str()); return 1; }
        l.lock(); if (!l.is_locked() || other_can_take(l)) { std::printf("REPRODUCED %s: spin_lock: lock() did not take\n", c.c_str()); return 1; }
        l.unlock();
        if (!l.try_lock(3)) { std::printf("REPRODUCED %s: spin_lock: try_lock(3) on a free lock failed\n", c.c_str()); return 1; }
        l.unlock();
    }
    std::printf("not reproduced over the native scenario search (contention scenarios need a schedule)\n");
    return 0;
}
