// unit locks — C22. Real text: cds/sync/spinlock.h (shadow), pool_monitor.h, injecting_monitor.h, lock_array.h (fragments/shadow).
// Rely/guarantee encoding: the <atomic> stub calls vx_env() before every atomic access (what other threads may have done
// meanwhile, subject to the rely) and vx_after() after every store / successful RMW (ghost update + guarantee assertion).
#include <cds/details/defs.h>
extern "C" void vx_env(const void* addr);
extern "C" void vx_after(const void* addr, uint64_t oldv, uint64_t newv);
#define VX_ATOMIC_ENV(a) vx_env((const void*)(a))
#define VX_ATOMIC_AFTER(a, o, n) vx_after((const void*)(a), (uint64_t)(o), (uint64_t)(n))
#define VX_CAS_WEAK_MAY_FAIL
#include <cds/algo/atomic.h>
#include <cds/sync/spinlock.h>

typedef cds::sync::spin_lock<cds::backoff::LockDefault> spin_t;
typedef cds::sync::reentrant_spin_lock<uint32_t, cds::backoff::LockDefault> rspin_t;
static spin_t g_spin;
static rspin_t g_rspin;
extern "C" void* w_spin_word(void)  { return &g_spin.m_spin; }
extern "C" bool w_spin_try_lock(void) { return g_spin.try_lock(); }
extern "C" bool w_spin_try_lock_n(unsigned n) { return g_spin.try_lock(n); }
extern "C" void w_spin_lock(void)   { g_spin.lock(); }
extern "C" void w_spin_unlock(void) { g_spin.unlock(); }
extern "C" bool w_spin_is_locked(void) { return g_spin.is_locked(); }

extern "C" void* w_rspin_word(void)  { return &g_rspin.m_spin; }
extern "C" void* w_rspin_owner(void) { return &g_rspin.m_OwnerId; }
extern "C" bool w_rspin_try_lock(void) { return g_rspin.try_lock(); }
extern "C" bool w_rspin_try_lock_n(unsigned n) { return g_rspin.try_lock(n); }
extern "C" void w_rspin_lock(void)   { g_rspin.lock(); }
extern "C" void w_rspin_unlock(void) { g_rspin.unlock(); }
extern "C" bool w_rspin_is_locked(void) { return g_rspin.is_locked(); }
