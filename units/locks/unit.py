# unit locks — property C22
NOEX = dict(re=r'noexcept\(\s*noexcept\([^;{]*?\)\)\)', to='', count='4+', why='conditional noexcept(noexcept(...)) does not parse; no run-time meaning')


def grp(name, harness, fns, expect, unwind=10, bounded='spin iterations <= VX_BUDGET(6)+3 (memoryless loops)', timeout=300):
    return dict(name=name, harness=harness, enforce=[], dfcc=False, functions=fns, expect=expect, props=['C22'], timeout=timeout, unwind=unwind, bounded=bounded,
                replay=dict(driver='replay.cpp', case=name, vars=[]))


SP = 'cds::sync::spin_lock<Backoff>::'
RS = 'cds::sync::reentrant_spin_lock<uint32_t,Backoff>::'
UNIT = dict(
    properties=['C22'],
    stage=[
        dict(kind='shadow', path='cds/sync/spinlock.h', rewrites=[
            dict(re=r'noexcept\(\s?noexcept\( backoff_strategy\(\)\(\)\)\)', to='', count=4, why='conditional noexcept; no run-time meaning'),
            dict(re=r'noexcept\( noexcept\( std::declval<reentrant_spin_lock>\(\)\.\w+\([^)]*\)\)\)', to='', count=3, why='conditional noexcept; no run-time meaning'),
        ]),
        dict(kind='shadow', path='cds/sync/pool_monitor.h', rewrites=[
            dict(re=r'typedef typename std::conditional<\s*std::is_same< BackOff, cds::opt::none >::value,\s*cds::backoff::yield,\s*BackOff\s*>::type  back_off;', to='typedef BackOff back_off;', count=1,
                 why='std::conditional (type selection) is outside the front end; the selected type for a non-none BackOff is BackOff itself'),
            dict(re=r'typedef typename std::conditional<\s*Stat,\s*typename pool_monitor_traits::stat<>,\s*typename pool_monitor_traits::empty_stat\s*>::type internal_stat;', to='typedef pool_monitor_traits::empty_stat internal_stat;', count=1,
                 why='std::conditional; Stat = false (the default) selects empty_stat'),
            dict(lit='typedef typename pool_type::value_type lock_type;', to='typedef vx_lock lock_type;', count=1,
                 why='nested type of a template parameter (LockPool::value_type) is not resolved by the front end; concrete pool value type of this instantiation'),
            dict(re=r'template <typename Node>\s*using scoped_lock = monitor_scoped_lock< pool_monitor, Node >;', to='', count=1, why='alias template (unsupported); RAII wrapper calling lock/unlock'),
        ]),
        dict(kind='fragment', path='cds/algo/bitop.h', name='BitOps4', anchor=r'template <> struct BitOps<4>', body_only=True),
        dict(kind='fragment', path='cds/algo/bitop.h', name='BitOps8', anchor=r'template <> struct BitOps<8>', body_only=True),
        dict(kind='verbatim', path='cds/details/bitop_generic.h'),
        dict(kind='verbatim', path='cds/algo/int_algo.h'),
        dict(kind='shadow', path='cds/compiler/bitop.h', rewrites=[
            dict(lit='#       include <cds/compiler/gcc/amd64/bitop.h>', to='#       include <vx_asm_bitop.h>', count=1, why='inline asm invisible to CBMC; not on a verified path here')]),
        dict(kind='fragment', path='cds/sync/lock_array.h', name='trivial_select_policy', anchor=r'struct trivial_select_policy', semicolon=True),
        dict(kind='fragment', path='cds/sync/lock_array.h', name='mod_select_policy', anchor=r'struct mod_select_policy', semicolon=True),
        dict(kind='fragment', path='cds/sync/lock_array.h', name='pow2_select_policy', anchor=r'struct pow2_select_policy', semicolon=True, rewrites=[
            dict(re=r'pow2_select_policy\( pow2_select_policy&& src \)\s*: m_nMask\( src\.m_nMask \)\s*\{\}', to='', count=1, why='rvalue-reference constructor (unsupported); the copy constructor is the same code')]),
        dict(kind='fragment', path='cds/sync/lock_array.h', name='lock_array', anchor=r'template <typename Lock\s*, typename SelectPolicy = mod_select_policy\s*, class Alloc = CDS_DEFAULT_ALLOCATOR\s*>\s*class lock_array', semicolon=True, rewrites=[
            dict(re=r'lock_array\(\s*size_t nCapacity,[^\n]*\n\s*select_cell_policy&& policy[^\n]*\n\s*\)\s*: m_arrLocks\( nullptr \)\s*, m_nCapacity\( nCapacity \)\s*, m_SelectCellPolicy\( std::forward<select_cell_policy>\( policy \)\)\s*\{\s*m_arrLocks = create_lock_array\( m_nCapacity \);\s*\}', to='', count=1,
                 why='rvalue-reference constructor (unsupported); same body as the const& constructor'),
            dict(lit='static lock_type * create_lock_array( size_t nCapacity )', to='lock_type * create_lock_array( size_t nCapacity )', count=1, why='static member function of a class template called from ctor/dtor is not instantiated by the front end; uses no object state either way'),
            dict(lit='static void delete_lock_array( lock_type * pArr, size_t nCapacity )', to='void delete_lock_array( lock_type * pArr, size_t nCapacity )', count=1, why='same'),
            dict(lit='return cxx_allocator().NewArray( nCapacity );', to='cxx_allocator vx_a; return vx_a.NewArray( nCapacity );', count=1, why='T() temporary crashes the front end; named object of the same stateless type'),
            dict(lit='cxx_allocator().Delete( pArr, nCapacity );', to='{ cxx_allocator vx_a; vx_a.Delete( pArr, nCapacity ); }', count=1, why='same')]),
        dict(kind='shadow', path='cds/sync/injecting_monitor.h', rewrites=[
            dict(re=r'template <typename Node>\s*using scoped_lock = monitor_scoped_lock< injecting_monitor, Node >;', to='', count=1, why='alias template (unsupported)'),
        ]),
    ],
    cxx=['shim.cpp', 'shim_monitor.cpp'],
    sabotage=[
        dict(name='try_lock_inverted', quick=True, target='cds/sync/spinlock.h', lit='return !bCurrent;', to='return bCurrent;', count=1, groups=['spin_try_lock'], expect_fail=r'C22\.spin_lock try_lock'),
        dict(name='unlock_stores_true', target='cds/sync/spinlock.h', lit='m_spin.store( false, atomics::memory_order_release );\n            }\n        };', to='m_spin.store( true, atomics::memory_order_release );\n            }\n        };', count=1,
             groups=['spin_unlock'], expect_fail=r'C22\.spin_lock unlock'),
        dict(name='reentrant_early_release', target='cds/sync/spinlock.h', lit='if ( n > 1 )', to='if ( n > 2 )', count=1, groups=['rspin_unlock'], expect_fail=r'C22\.(guarantee reentrant|reentrant unlock)'),
        dict(name='pool_monitor_reload_cur', quick=True, target='cds/sync/pool_monitor.h', re=r'(onLockContention\(\);\s*bkoff\(\);\s*)cur &= ~c_nSpinBit;', to=r'\1cur = p.m_SyncMonitorInjection.m_RefSpin.load( atomics::memory_order_relaxed );', count=1,
             groups=['pm_lock'], expect_fail=r'C22\.guarantee pool_monitor'),
        dict(name='pool_monitor_early_dealloc', target='cds/sync/pool_monitor.h', lit='if ( cur == c_nRefIncrement ) {', to='if ( cur <= 2 * c_nRefIncrement ) {', count=1, groups=['pm_unlock'], expect_fail=r'C22\.pool_monitor'),
    ], c=['contracts.c'], cxxflags=['-Dconstexpr=', '-Dnoexcept=', '-Dexplicit=', '-Dprivate=public', '-Dprotected=public', '-I/verif/units/bits'],
    groups=[
        grp('spin_try_lock', 'h_spin_try_lock', [SP + 'try_lock()'], [r'C22\.spin_lock try_lock', r'C22\.guarantee spin_lock'], bounded=None, unwind=None),
        grp('spin_try_lock_n', 'h_spin_try_lock_n', [SP + 'try_lock(unsigned)'], [r'C22\.spin_lock try_lock\(n\)'], bounded='n <= 3 attempts'),
        grp('spin_lock', 'h_spin_lock', [SP + 'lock()'], [r'C22\.spin_lock lock']),
        grp('spin_unlock', 'h_spin_unlock', [SP + 'unlock()'], [r'C22\.spin_lock unlock', r'C22\.guarantee spin_lock: releases'], bounded=None, unwind=None),
        grp('spin_held_is_stable', 'h_spin_held_is_stable', [SP + 'is_locked()'], [r'C22\.spin_lock: a held lock'], bounded=None, unwind=None),
        grp('rspin_lock', 'h_rspin_lock', [RS + 'lock()', RS + 'try_taken_lock', RS + 'acquire', RS + 'try_acquire', RS + 'take'], [r'C22\.reentrant lock', r'C22\.guarantee reentrant']),
        grp('rspin_try_lock', 'h_rspin_try_lock', [RS + 'try_lock()'], [r'C22\.reentrant try_lock'], bounded=None, unwind=None),
        grp('rspin_try_lock_n', 'h_rspin_try_lock_n', [RS + 'try_lock(unsigned)', RS + 'try_acquire(unsigned)'], [r'C22\.reentrant try_lock\(n\)'], bounded='n <= 3 attempts'),
        grp('rspin_unlock', 'h_rspin_unlock', [RS + 'unlock()', RS + 'free'], [r'C22\.reentrant unlock'], bounded=None, unwind=None),
        grp('pm_lock', 'h_pm_lock', ['cds::sync::pool_monitor<Pool,BackOff,false>::lock(Node const&)'], [r'C22\.pool_monitor lock', r'C22\.guarantee pool_monitor', r'C22\.pool_monitor invariant after lock']),
        grp('pm_unlock', 'h_pm_unlock', ['cds::sync::pool_monitor<Pool,BackOff,false>::unlock(Node const&)'], [r'C22\.pool_monitor unlock', r'C22\.pool_monitor: returns to the pool', r'C22\.pool_monitor invariant after unlock']),
        grp('injecting_monitor', 'h_im', ['cds::sync::injecting_monitor<Lock>::lock/unlock(Node const&)'], [r'C22\.injecting_monitor'], bounded=None, unwind=None),
        grp('la_mod_lock', 'h_la_mod_lock', ['cds::sync::lock_array<Lock,SelectPolicy>::lock/try_lock/unlock/lock_all/unlock_all/at', 'mod_select_policy', 'pow2_select_policy'], [r'C22\.lock_array lock'], bounded='capacity <= 4'),
        grp('la_mod_lock_unlock', 'h_la_mod_lock_unlock', ['cds::sync::lock_array<Lock,SelectPolicy>::lock/try_lock/unlock/lock_all/unlock_all/at', 'mod_select_policy', 'pow2_select_policy'], [r'C22\.lock_array unlock'], bounded='capacity <= 4'),
        grp('la_pow2_lock', 'h_la_pow2_lock', ['cds::sync::lock_array<Lock,SelectPolicy>::lock/try_lock/unlock/lock_all/unlock_all/at', 'mod_select_policy', 'pow2_select_policy'], [r'C22\.lock_array lock'], bounded='capacity in {1,2,4,8}'),
        grp('la_lock_all', 'h_la_lock_all', ['cds::sync::lock_array<Lock,SelectPolicy>::lock/try_lock/unlock/lock_all/unlock_all/at', 'mod_select_policy', 'pow2_select_policy'], [r'C22\.lock_array lock_all'], bounded='capacity <= 4'),
        grp('la_lock_unlock_all', 'h_la_lock_unlock_all', ['cds::sync::lock_array<Lock,SelectPolicy>::lock/try_lock/unlock/lock_all/unlock_all/at', 'mod_select_policy', 'pow2_select_policy'], [r'C22\.lock_array unlock_all'], bounded='capacity <= 4'),
        grp('la_try_lock', 'h_la_try_lock', ['cds::sync::lock_array<Lock,SelectPolicy>::lock/try_lock/unlock/lock_all/unlock_all/at', 'mod_select_policy', 'pow2_select_policy'], [r'C22\.lock_array try_lock'], bounded='capacity <= 4'),
        grp('rspin_is_locked', 'h_rspin_is_locked', [RS + 'is_locked()'], [r'C22\.reentrant is_locked'], bounded=None, unwind=None),
    ],
    trusted_base=[
        'rely/guarantee meta-theorem (paper): invariant preserved by my steps + by the environment under the rely => mutual exclusion',
        'SC atomic<T> stub: all memory orders sequentially consistent; compare_exchange_weak may fail spuriously',
        'OS thread id stub (caller = constant id 7, others any other id); back-off = no-op',
        'CBMC 6.11 C++ front end',
    ],
    assumptions=['other threads obey the same protocol (rely): they never release or take a lock the caller holds and never write the caller\'s id into the owner field',
                 'termination of spin loops not claimed (fairness budget closes the loops)'],
    dropped=['noexcept specifications', 'private -> public'],
)
