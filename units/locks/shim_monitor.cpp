// unit locks, part 2 — pool_monitor / injecting_monitor / lock_array over GHOST node locks.
#include <cds/details/defs.h>
extern "C" void vx_env(const void* addr);
extern "C" void vx_after(const void* addr, uint64_t oldv, uint64_t newv);
#define VX_ATOMIC_ENV(a) vx_env((const void*)(a))
#define VX_ATOMIC_AFTER(a, o, n) vx_after((const void*)(a), (uint64_t)(o), (uint64_t)(n))
#define VX_CAS_WEAK_MAY_FAIL
#include <cds/algo/atomic.h>
#include <cds/algo/backoff_strategy.h>

// ghost node lock: lock()/unlock() only notify the ghost (who locks which lock object)
extern "C" void vx_glock(const void* lk, int op);      // op 1 lock, 2 unlock, 3 try_lock
extern "C" int vx_nondet_int();
struct vx_lock {
    int tag;
    void lock() { vx_glock(this, 1); }
    void unlock() { vx_glock(this, 2); }
    bool try_lock() { if (vx_nondet_int()) { vx_glock(this, 3); return true; } return false; }
};
// ghost pool: hands out lock objects from a small arena; the ghost asserts an object is never handed out while assigned
extern "C" void* vx_pool_allocate(void);
extern "C" void vx_pool_deallocate(void* p);
struct vx_pool {
    typedef vx_lock value_type;
    vx_pool( size_t ) {}
    vx_lock* allocate( size_t ) { return (vx_lock*) vx_pool_allocate(); }
    void deallocate( vx_lock* p, size_t ) { vx_pool_deallocate(p); }
};
#include <cds/sync/pool_monitor.h>
#include <cds/sync/injecting_monitor.h>

typedef cds::sync::pool_monitor<vx_pool, cds::backoff::Default, false> pm_t;
struct pm_node { cds::sync::pool_monitor<vx_pool, cds::backoff::Default, false>::node_injection m_SyncMonitorInjection; };
static pm_node g_node;
extern "C" void* w_pm_refspin(void) { return &g_node.m_SyncMonitorInjection.m_RefSpin; }
extern "C" void** w_pm_plock(void) { return (void**)&g_node.m_SyncMonitorInjection.m_pLock; }
extern "C" void w_pm_lock(void)   { pm_t m(4); m.lock<pm_node>(g_node); }
extern "C" void w_pm_unlock(void) { pm_t m(4); m.unlock<pm_node>(g_node); }

typedef cds::sync::injecting_monitor<vx_lock> im_t;
struct im_node { cds::sync::injecting_monitor<vx_lock>::node_injection m_SyncMonitorInjection; };
static im_node g_in[2];
extern "C" void* w_im_lock_addr(unsigned i) { return &g_in[i].m_SyncMonitorInjection.m_Lock; }
extern "C" void w_im_lock(unsigned i)   { im_t m; m.lock<im_node>(g_in[i]); }
extern "C" void w_im_unlock(unsigned i) { im_t m; m.unlock<im_node>(g_in[i]); }

// ---- lock_array (fragments of cds/sync/lock_array.h: the three selection policies and class lock_array)
#include <cds/algo/int_algo.h>
#include <utility>
struct vx_alloc_tag {};
#define CDS_DEFAULT_ALLOCATOR vx_alloc_tag
namespace cds { namespace details {
    // shell for cds::details::Allocator<T,Alloc>: arrays come from a static arena of default-constructed objects
    template <typename T, typename A> struct Allocator {
        T* NewArray( size_t n ) { static T arena[8]; return n <= 8 ? arena : (T*)0; }
        void Delete( T*, size_t ) {}
    };
}}
namespace cds { namespace sync {
#include <trivial_select_policy.inc>
#include <mod_select_policy.inc>
#include <pow2_select_policy.inc>
#include <lock_array.inc>
}}
#ifndef VX_LA_CAP
#define VX_LA_CAP 4
#endif
typedef cds::sync::lock_array<vx_lock, cds::sync::mod_select_policy, vx_alloc_tag> la_mod_t;
typedef cds::sync::lock_array<vx_lock, cds::sync::pow2_select_policy, vx_alloc_tag> la_pow2_t;
extern "C" void vx_la_register(const void* lk, unsigned i);
extern "C" size_t w_la_mod_lock(size_t cap, size_t hint) { la_mod_t a(cap); for (unsigned i = 0; i < cap; ++i) vx_la_register(&a.at(i), i); return a.lock<size_t>(hint); }
extern "C" size_t w_la_mod_lock_unlock(size_t cap, size_t hint) { la_mod_t a(cap); for (unsigned i = 0; i < cap; ++i) vx_la_register(&a.at(i), i); size_t c = a.lock<size_t>(hint); a.unlock(c); return c; }
extern "C" size_t w_la_pow2_lock(size_t cap, size_t hint) { cds::sync::pow2_select_policy pol(cap); la_pow2_t a(cap, pol); for (unsigned i = 0; i < cap; ++i) vx_la_register(&a.at(i), i); return a.lock<size_t>(hint); }
extern "C" void w_la_lock_all(size_t cap) { la_mod_t a(cap); for (unsigned i = 0; i < cap; ++i) vx_la_register(&a.at(i), i); a.lock_all(); }
extern "C" void w_la_lock_unlock_all(size_t cap) { la_mod_t a(cap); for (unsigned i = 0; i < cap; ++i) vx_la_register(&a.at(i), i); a.lock_all(); a.unlock_all(); }
extern "C" size_t w_la_try_lock(size_t cap, size_t hint) { la_mod_t a(cap); for (unsigned i = 0; i < cap; ++i) vx_la_register(&a.at(i), i); return a.try_lock<size_t>(hint); }
